#!/bin/bash
# Builds the framework from files on disk only (offline) and warms the Go build cache.
set -e
export VERIF_DIR="${VERIF_DIR:-/verif}"
. "$VERIF_DIR/lib/env.sh"
mkdir -p "$VERIF_DIR/build/bin" "$VERIF_DIR/evidence" "$VERIF_DIR/replays"
ensure_rewriter
# warm: build the scheduler harness once
build_sched_harness "$VERIF_DIR/build/setup" schedmc
# bind the shim to Go: litmus suite (outcome sets) and race litmus suite (race verdicts)
build_litmus "$VERIF_DIR/build/setup"
"$VERIF_DIR/build/setup/bin/litmusmc" | tail -1
build_racelit "$VERIF_DIR/build/setup"
run_racelit "$VERIF_DIR/build/setup" | tail -1
echo "setup ok"
