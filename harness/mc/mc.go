// Package mc holds what every model-checking driver in /verif shares: the
// worker-process pool, evidence and replay files, known findings.
package mc

import (
	"bufio"
	"crypto/sha1"
	"encoding/json"
	"fmt"
	"io"
	"os"
	"os/exec"
	"path/filepath"
	"runtime"
	"sort"
	"strconv"
	"strings"
	"sync"
	"time"
)

// VerifDir is the root of the verification tree.
func VerifDir() string {
	if d := os.Getenv("VERIF_DIR"); d != "" {
		return d
	}
	return "/verif"
}

// Seed returns VERIF_SEED (0 if unset). Nothing is random; it only rotates
// the order in which scenarios are handed to workers.
func Seed() int {
	n, _ := strconv.Atoi(os.Getenv("VERIF_SEED"))
	return n
}

// Workers is the number of worker processes to use.
func Workers() int {
	if s := os.Getenv("VERIF_WORKERS"); s != "" {
		if n, err := strconv.Atoi(s); err == nil && n > 0 {
			return n
		}
	}
	n := runtime.NumCPU()
	if n > 16 {
		n = 16
	}
	return n
}

// ---------------------------------------------------------------- pool

// Pool runs tasks on n subprocesses of the current binary started with
// workerArgs. Each task is one JSON line on the worker's stdin and yields one
// JSON line on its stdout. handle is called (serialised) for each result.
func Pool(n int, workerArgs []string, tasks [][]byte, handle func(i int, res []byte)) error {
	if n > len(tasks) {
		n = len(tasks)
	}
	if n == 0 {
		return nil
	}
	self, err := os.Executable()
	if err != nil {
		return err
	}
	var mu sync.Mutex
	next := 0
	var firstErr error
	var wg sync.WaitGroup
	for w := 0; w < n; w++ {
		wg.Add(1)
		go func(w int) {
			defer wg.Done()
			cmd := exec.Command(self, workerArgs...)
			cmd.Env = append(os.Environ(), "GOMAXPROCS=2")
			cmd.Stderr = os.Stderr
			in, _ := cmd.StdinPipe()
			outp, _ := cmd.StdoutPipe()
			if err := cmd.Start(); err != nil {
				mu.Lock()
				firstErr = err
				mu.Unlock()
				return
			}
			rd := bufio.NewReaderSize(outp, 1<<20)
			for {
				mu.Lock()
				if next >= len(tasks) || firstErr != nil {
					mu.Unlock()
					break
				}
				i := next
				next++
				mu.Unlock()
				if _, err := in.Write(append(tasks[i], '\n')); err != nil {
					mu.Lock()
					firstErr = fmt.Errorf("worker %d: write: %v", w, err)
					mu.Unlock()
					break
				}
				line, err := rd.ReadBytes('\n')
				if err != nil {
					mu.Lock()
					if firstErr == nil {
						firstErr = fmt.Errorf("worker %d died on task %d (%s): %v", w, i, tasks[i], err)
					}
					mu.Unlock()
					break
				}
				mu.Lock()
				handle(i, line)
				mu.Unlock()
			}
			in.Close()
			io.Copy(io.Discard, rd)
			cmd.Wait()
		}(w)
	}
	wg.Wait()
	return firstErr
}

// ServeWorker implements the worker side: f maps a task line to a result.
func ServeWorker(f func(task []byte) any) {
	rd := bufio.NewReaderSize(os.Stdin, 1<<20)
	w := bufio.NewWriter(os.Stdout)
	for {
		line, err := rd.ReadBytes('\n')
		if len(line) > 0 {
			res := f(line)
			b, _ := json.Marshal(res)
			w.Write(b)
			w.WriteByte('\n')
			w.Flush()
		}
		if err != nil {
			return
		}
	}
}

// ---------------------------------------------------------------- evidence

// Evidence mirrors EVIDENCE.schema.json.
type Evidence struct {
	PropertyID  string         `json:"property_id"`
	Tier        string         `json:"tier"`
	Seed        int            `json:"seed"`
	Level       string         `json:"level"`
	Coverage    map[string]any `json:"coverage"`
	Assumptions []string       `json:"assumptions,omitempty"`
	WallS       float64        `json:"wall_s"`
	Violations  int            `json:"violations"`
}

// WriteEvidence writes /verif/evidence/<id>.json.
func WriteEvidence(e *Evidence) error {
	dir := filepath.Join(VerifDir(), "evidence")
	if d := os.Getenv("VERIF_EVIDENCE_DIR"); d != "" {
		dir = d
	}
	os.MkdirAll(dir, 0o755)
	path := filepath.Join(dir, e.PropertyID+".json")
	if os.Getenv("VERIF_EVIDENCE_MERGE") == "1" {
		if old, err := os.ReadFile(path); err == nil {
			var prev Evidence
			if json.Unmarshal(old, &prev) == nil && prev.Tier == e.Tier {
				mergeEvidence(e, &prev)
			}
		}
	}
	b, err := json.MarshalIndent(e, "", " ")
	if err != nil {
		return err
	}
	return os.WriteFile(path, append(b, '\n'), 0o644)
}

// mergeEvidence folds the evidence of an earlier part of the same check
// (another engine) into e: counts add up, exhaustive is the conjunction.
func mergeEvidence(e, prev *Evidence) {
	e.WallS += prev.WallS
	e.Violations += prev.Violations
	for _, a := range prev.Assumptions {
		dup := false
		for _, b := range e.Assumptions {
			if a == b {
				dup = true
			}
		}
		if !dup {
			e.Assumptions = append(e.Assumptions, a)
		}
	}
	num := func(v any) (float64, bool) {
		switch x := v.(type) {
		case float64:
			return x, true
		case int:
			return float64(x), true
		case int64:
			return float64(x), true
		}
		return 0, false
	}
	for k, pv := range prev.Coverage {
		cv, ok := e.Coverage[k]
		if !ok {
			e.Coverage[k] = pv
			continue
		}
		switch k {
		case "exhaustive":
			a, _ := pv.(bool)
			b, _ := cv.(bool)
			e.Coverage[k] = a && b
		case "samples", "capped_scenarios":
			var l []any
			if x, ok := pv.([]any); ok {
				l = append(l, x...)
			}
			switch x := cv.(type) {
			case []any:
				l = append(l, x...)
			case []string:
				for _, s := range x {
					l = append(l, s)
				}
			}
			e.Coverage[k] = l
		case "rule":
			e.Coverage[k] = fmt.Sprintf("[scheduler level] %v [generated-code level] %v", pv, cv)
		case "max_depth":
			a, _ := num(pv)
			b, _ := num(cv)
			if a > b {
				e.Coverage[k] = int64(a)
			}
		default:
			a, ok1 := num(pv)
			b, ok2 := num(cv)
			if ok1 && ok2 {
				e.Coverage[k] = int64(a + b)
			}
		}
	}
}

// ---------------------------------------------------------------- replays

// Replay is a replayable violation artefact.
type Replay struct {
	Property  string          `json:"property"`
	Engine    string          `json:"engine"`
	Key       string          `json:"key"` // stable identification of the failing input (matched against known findings)
	Message   string          `json:"message"`
	Scenario  json.RawMessage `json:"scenario"`
	Decisions []int           `json:"decisions,omitempty"`
	Trace     []string        `json:"trace,omitempty"`
	Visible   string          `json:"visible,omitempty"`
	Note      string          `json:"note,omitempty"`
}

// WriteReplay stores r under /verif/replays and returns the path.
func WriteReplay(r *Replay) string {
	dir := filepath.Join(VerifDir(), "replays")
	if d := os.Getenv("VERIF_REPLAY_DIR"); d != "" {
		dir = d
	}
	os.MkdirAll(dir, 0o755)
	b, _ := json.MarshalIndent(r, "", " ")
	h := sha1.Sum(append([]byte(r.Property+r.Key), r.Scenario...))
	p := filepath.Join(dir, fmt.Sprintf("%s-%x.json", r.Property, h[:5]))
	os.WriteFile(p, append(b, '\n'), 0o644)
	return p
}

// ReadReplay loads a replay file.
func ReadReplay(path string) (*Replay, error) {
	b, err := os.ReadFile(path)
	if err != nil {
		return nil, err
	}
	var r Replay
	if err := json.Unmarshal(b, &r); err != nil {
		return nil, err
	}
	return &r, nil
}

// ---------------------------------------------------------------- known findings

// Known is one entry of /verif/known_findings.json.
type Known struct {
	Property string `json:"property"`
	Status   string `json:"status"` // "open" or "fixed"
	Key      string `json:"key"`    // exact key, or prefix ending in '*'
	What     string `json:"what"`
	Commit   string `json:"commit,omitempty"`
}

// LoadKnown reads the committed known-findings file. Entries with status
// "fixed" suppress nothing.
func LoadKnown() []Known {
	b, err := os.ReadFile(filepath.Join(VerifDir(), "known_findings.json"))
	if err != nil {
		return nil
	}
	var f struct {
		Findings []Known `json:"findings"`
	}
	json.Unmarshal(b, &f)
	return f.Findings
}

// MatchKnown returns the open known finding covering (prop,key), if any.
func MatchKnown(known []Known, prop, key string) *Known {
	for i := range known {
		k := &known[i]
		if k.Status != "open" || k.Property != prop {
			continue
		}
		if k.Key == key || (strings.HasSuffix(k.Key, "*") && strings.HasPrefix(key, strings.TrimSuffix(k.Key, "*"))) {
			return k
		}
	}
	return nil
}

// ---------------------------------------------------------------- reporting

// Reporter collects violations of one check run and prints the interface lines.
type Reporter struct {
	Prop       string
	known      []Known
	Violations int
	KnownHits  map[string]int
	printed    map[string]bool
	Start      time.Time
}

// NewReporter starts a check run for prop.
func NewReporter(prop string) *Reporter {
	return &Reporter{Prop: prop, known: LoadKnown(), KnownHits: map[string]int{}, printed: map[string]bool{}, Start: time.Now()}
}

// Report handles one confirmed violation: known finding => KNOWN-FINDING
// line (once per entry), otherwise a VIOLATION line with a replay file.
func (r *Reporter) Report(rp *Replay) {
	if k := MatchKnown(r.known, rp.Property, rp.Key); k != nil {
		r.KnownHits[k.Key]++
		if !r.printed[k.Key] {
			r.printed[k.Key] = true
			fmt.Printf("KNOWN-FINDING: property=%s %s [%s]\n", k.Property, k.What, k.Key)
		}
		return
	}
	r.Violations++
	path := WriteReplay(rp)
	if r.Violations <= 20 {
		fmt.Printf("VIOLATION property=%s replay=%s\n", rp.Property, path)
		fmt.Printf("  %s\n  input: %s\n", rp.Message, rp.Key)
	}
}

// ExitCode is 1 if any unlisted violation was reported.
func (r *Reporter) ExitCode() int {
	if r.Violations > 0 {
		return 1
	}
	return 0
}

// ToolError prints a tool error and exits 2 (never a VIOLATION).
func ToolError(format string, a ...any) {
	fmt.Printf("TOOL-ERROR "+format+"\n", a...)
	os.Exit(2)
}

// SortedKeys returns the sorted keys of a map.
func SortedKeys[V any](m map[string]V) []string {
	var ks []string
	for k := range m {
		ks = append(ks, k)
	}
	sort.Strings(ks)
	return ks
}
