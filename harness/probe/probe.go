// Package probe is the contract between generated test programs (rendered by
// progenum, compiled by the cff tool under test) and the model-checking
// driver. It is pure Go: it must type-check without the verification shim,
// because the cff tool loads it as a dependency of its input packages.
package probe

import (
	"context"
	"runtime"
)

// In is what a directive wrapper receives from the driver.
type In struct {
	Ctx   context.Context
	N     int      // value of the Concurrency argument when the program has one
	COE   bool     // value of the ContinueOnError argument when non-constant
	P     []uint64 // seeds of cff.Params values
	Colls [][]uint64
	Maps  []map[uint64]uint64
	Emit  []any // emitters (cff.Emitter), in the order the program lists them
	Inst  int   // instance id (re-entrancy scenarios)
}

// Coll returns collection k (nil slice if absent).
func (in *In) Coll(k int) []uint64 {
	if k < len(in.Colls) {
		return in.Colls[k]
	}
	return nil
}

// Map returns map k.
func (in *In) Map(k int) map[uint64]uint64 {
	if k < len(in.Maps) {
		return in.Maps[k]
	}
	return nil
}

// Param returns the seed of parameter k.
func (in *In) Param(k int) uint64 {
	if k < len(in.P) {
		return in.P[k]
	}
	return 1000 + uint64(k)
}

// Out is what a directive wrapper reports back.
type Out struct {
	Err error
	R   []uint64 // hashes of the cff.Results targets after the call
}

// Sentinel is the value Results targets hold before the directive runs.
func Sentinel(k int) uint64 { return 0xdead0000 + uint64(k) }

// Program is a registered directive wrapper.
type Program struct {
	ID   string
	Spec string // JSON of the abstract program (progenum model)
	Run  func(*In) *Out
}

// Registry of all programs linked into the driver.
var Registry = map[string]*Program{}

// Register is called from init functions in generated sources.
func Register(id, spec string, run func(*In) *Out) {
	if _, dup := Registry[id]; dup {
		panic("probe: duplicate program " + id)
	}
	Registry[id] = &Program{ID: id, Spec: spec, Run: run}
}

// Outcome kinds decided by the driver for a user function invocation.
const (
	OK     = "ok"
	Fail   = "err"
	Panic  = "panic"
	Goexit = "goexit"
	Cancel = "cancel" // cancel the directive's context, then succeed
	True   = "true"
	False  = "false"
	Gate   = "gate" // block until the driver releases it after the directive returned
	// OverBar: block until every function with this decision is executing at
	// the same time (the scenario gives it to limit+1 functions, so they can
	// only all meet if the concurrency limit is exceeded)
	OverBar = "overbar"
	// Bar: block until every function with this decision is executing at the
	// same time; the scenario gives it to exactly `limit` functions, so they
	// must all get through (capacity is real).
	Bar = "bar"
	// GateFail: like Gate, then return the injected error (a function that fails after the directive has already returned)
	GateFail = "gatefail"
)

// Decision is the driver's answer for one invocation.
type Decision struct {
	Kind     string
	Err      error
	PanicVal any
	RTPanic  bool // provoke a genuine runtime error instead of panic(PanicVal)
}

// Hooks are installed by the driver.
type Hooks interface {
	// Start logs the invocation and decides its outcome.
	Start(id string, ctx context.Context, args []uint64) Decision
	// End logs the end of the invocation (for panic/Goexit: logged just before the function panics/exits).
	End(id string, kind string)
	// Arg logs the evaluation of directive argument k of program id.
	Arg(id string, k int)
	// CancelCtx cancels the directive's context.
	CancelCtx()
	// Gate blocks until released.
	Gate()
	// OverBar blocks until all over-limit barrier participants have arrived.
	OverBar()
}

// H is the active hook set.
var H Hooks

// Result of a task invocation.
type Result struct {
	id   string
	args []uint64
	err  error
}

// Hash is the deterministic output function: output i of function id applied
// to args.
func Hash(id string, i int, args []uint64) uint64 {
	// FNV-1a over "id/i,arg,arg..." - written without fmt or hash/fnv objects:
	// user functions call this on task goroutines, and fmt's sync.Pool would
	// add happens-before edges between tasks that the race build (C12) must
	// not see.
	const off, prime = 14695981039346656037, 1099511628211
	h := uint64(off)
	mix := func(b byte) { h ^= uint64(b); h *= prime }
	for k := 0; k < len(id); k++ {
		mix(id[k])
	}
	mix('/')
	num := func(v uint64) {
		var buf [20]byte
		n := len(buf)
		for {
			n--
			buf[n] = byte('0' + v%10)
			v /= 10
			if v == 0 {
				break
			}
		}
		for ; n < len(buf); n++ {
			mix(buf[n])
		}
	}
	num(uint64(i))
	for _, a := range args {
		mix(',')
		num(a)
	}
	if h == 0 {
		h = 1
	}
	return h
}

// Out returns output i.
func (r Result) Out(i int) uint64 { return Hash(r.id, i, r.args) }

// Err returns the error the invocation must return.
func (r Result) Err() error { return r.err }

// Fallback returns the k-th fallback value of task id.
func Fallback(id string, k int) uint64 { return Hash(id+"/fallback", k, nil) }

func provokeRuntimeError() {
	var m map[int]int
	m[0] = 1
}

// Call is invoked by every generated user function (task, slice/map function,
// End hook): it logs, then behaves as the driver decides.
func Call(id string, ctx context.Context, args ...uint64) Result {
	d := H.Start(id, ctx, args)
	switch d.Kind {
	case Panic:
		H.End(id, d.Kind)
		if d.RTPanic {
			provokeRuntimeError()
		}
		panic(d.PanicVal)
	case Goexit:
		H.End(id, d.Kind)
		runtime.Goexit()
	case Cancel:
		H.CancelCtx()
	case Gate, GateFail:
		H.Gate()
	case OverBar, Bar:
		H.OverBar()
	}
	H.End(id, d.Kind)
	return Result{id: id, args: args, err: d.Err}
}

// Pred is invoked by every generated predicate function.
func Pred(id string, ctx context.Context, args ...uint64) bool {
	d := H.Start(id, ctx, args)
	switch d.Kind {
	case Panic:
		H.End(id, d.Kind)
		if d.RTPanic {
			provokeRuntimeError()
		}
		panic(d.PanicVal)
	case Goexit:
		H.End(id, d.Kind)
		runtime.Goexit()
	case Cancel:
		H.CancelCtx()
	}
	H.End(id, d.Kind)
	return d.Kind != False
}

// Tr wraps a directive argument expression: identity that logs evaluation.
func Tr[T any](id string, k int, v T) T {
	H.Arg(id, k)
	return v
}

// Mut runs f (which changes a variable the caller used in an EARLIER argument
// of the same directive) and returns v: a later argument whose evaluation has
// a side effect on an earlier one.
func Mut[T any](f func(), v T) T {
	f()
	return v
}

// Zero sets *p to the zero value of its type.
func Zero[T any](p *T) {
	var z T
	*p = z
}
