// Command schedmc model-checks the repository's scheduler (rewritten onto the
// vs shim) over the scenario family of one property.
//
//	schedmc -prop C01 -tier quick          # master: explores, writes evidence, prints VIOLATION lines
//	schedmc -replay replays/C06-xxxx.json  # re-executes one recorded schedule
//	schedmc -worker                        # internal
package main

import (
	"encoding/json"
	"flag"
	"fmt"
	"hash/fnv"
	"os"
	"sort"
	"strings"
	"time"

	"go.uber.org/cff/zzverif/vs"
	"verif/harness/mc"
	"verif/harness/schedsc"
)

type task struct {
	Sc        schedsc.Scenario `json:"sc"`
	Strategy  int              `json:"strategy"`
	Preempt   int              `json:"preempt"`
	DeadlineS int              `json:"deadline_s"`
	Shard     int              `json:"shard"`
	Shards    int              `json:"shards"`
	ShardD    int              `json:"shard_d"`
	OnlyProp  string           `json:"only_prop,omitempty"`
	Replay    []int            `json:"replay,omitempty"` // race build: re-execute this schedule and report whether the detector fires
}

type violation struct {
	Prop      string   `json:"prop"`
	Msg       string   `json:"msg"`
	Decisions []int    `json:"decisions"`
	Trace     []string `json:"trace,omitempty"`
	Visible   string   `json:"visible"`
	Race      bool     `json:"race,omitempty"`
}

// raceLogSize: size of this process's race-detector log (GORACE log_path=<prefix> writes <prefix>.<pid>).
func raceLogSize() int64 {
	pfx := os.Getenv("VERIF_RACE_LOG")
	if pfx == "" {
		return 0
	}
	st, err := os.Stat(fmt.Sprintf("%s.%d", pfx, os.Getpid()))
	if err != nil {
		return 0
	}
	return st.Size()
}

func raceLogTail(from int64) string {
	b, err := os.ReadFile(fmt.Sprintf("%s.%d", os.Getenv("VERIF_RACE_LOG"), os.Getpid()))
	if err != nil || int64(len(b)) <= from {
		return ""
	}
	var keep []string
	for _, l := range strings.Split(string(b[from:]), "\n") {
		t := strings.TrimSpace(l)
		if t == "" || strings.HasPrefix(t, "=====") || strings.Contains(t, "/zzverif/vs.") || strings.Contains(t, "zzverif/vs/") {
			continue
		}
		keep = append(keep, "    "+t)
		if len(keep) >= 24 {
			break
		}
	}
	return strings.Join(keep, "\n")
}

type result struct {
	Name       string      `json:"name"`
	Stats      vs.Stats    `json:"stats"`
	Outcomes   int         `json:"outcomes"`
	MaxSpawned int         `json:"max_spawned"`
	MaxAlive   int         `json:"max_alive"`
	Violations []violation `json:"violations,omitempty"`
	ToolErr    string      `json:"tool_err,omitempty"`
	WallMs     int64       `json:"wall_ms"`
	Sample     *violation  `json:"sample,omitempty"` // one explored execution, for evidence
	WaitErrs   []string    `json:"wait_errs,omitempty"`
}

func cfgFor(sc *schedsc.Scenario) vs.Config {
	return vs.Config{Ticks: sc.Ticks, MaxSteps: 4000, GOMAXPROCS: sc.GOMAXPROCS}
}

func runTask(t *task) *result {
	start := time.Now()
	res := &result{Name: t.Sc.Name}
	sc := &t.Sc
	var cur *schedsc.Run
	body := func() {
		b, r := sc.Body()
		cur = r
		b()
	}
	if t.Replay != nil {
		before := raceLogSize()
		ex := vs.Replay(cfgFor(sc), body, t.Replay)
		if ex.Term == vs.TermToolError {
			res.ToolErr = ex.ToolErr
			return res
		}
		if vs.RaceBuild && raceLogSize() > before {
			res.Violations = append(res.Violations, violation{Prop: "C12", Msg: "race reproduced", Decisions: t.Replay, Race: true})
		}
		return res
	}
	outcomes := map[uint64]bool{}
	waitErrs := map[string]bool{}
	seenProp := map[string]bool{}
	raceSeen := raceLogSize()
	opt := vs.Options{Strategy: vs.Strategy(t.Strategy), PreemptBound: t.Preempt, Cfg: cfgFor(sc),
		ShardIndex: t.Shard, ShardCount: t.Shards, ShardDepth: t.ShardD}
	if t.DeadlineS > 0 {
		opt.Deadline = start.Add(time.Duration(t.DeadlineS) * time.Second)
	}
	if sc.Probe > 0 {
		opt.Strategy, opt.PreemptBound, opt.MaxExecs = vs.Plain, 0, int64(sc.Probe)
	}
	if vs.RaceBuild {
		opt.AfterExec = func(ex *vs.Exec) bool {
			if n := raceLogSize(); n > raceSeen {
				res.Violations = append(res.Violations, violation{Prop: "C12", Race: true, Decisions: append([]int{}, ex.Decisions...), Visible: schedsc.Visible(cur, ex),
					Msg: "the Go race detector reports a data race inside the scheduler in this execution:\n" + raceLogTail(raceSeen)})
				raceSeen = n
				return true
			}
			return false
		}
	}
	st, terr := vs.Explore(opt, body, func(ex *vs.Exec) bool {
		vis := schedsc.Visible(cur, ex)
		h := fnv.New64a()
		h.Write([]byte(vis))
		outcomes[h.Sum64()] = true
		for _, e := range cur.WaitErr {
			waitErrs[fmt.Sprint(e)] = true
		}
		if ex.Spawned > res.MaxSpawned {
			res.MaxSpawned = ex.Spawned
		}
		if ex.MaxAlive > res.MaxAlive {
			res.MaxAlive = ex.MaxAlive
		}
		if res.Sample == nil {
			res.Sample = &violation{Decisions: append([]int{}, ex.Decisions...), Visible: vis}
		}
		fs := schedsc.Check(cur, ex)
		stop := false
		for _, f := range fs {
			if t.OnlyProp != "" && f.Prop != t.OnlyProp {
				continue
			}
			if seenProp[f.Prop] {
				continue
			}
			seenProp[f.Prop] = true
			res.Violations = append(res.Violations, violation{Prop: f.Prop, Msg: f.Msg, Decisions: append([]int{}, ex.Decisions...), Visible: vis})
			stop = true
		}
		return stop
	})
	res.Stats = st
	res.ToolErr = terr
	res.Outcomes = len(outcomes)
	res.WaitErrs = sortedKeys(waitErrs)
	res.WallMs = time.Since(start).Milliseconds()
	return res
}

func sortedKeys(m map[string]bool) []string {
	var k []string
	for s := range m {
		k = append(k, s)
	}
	sort.Strings(k)
	return k
}

// confirm replays a violation five times and requires identical observations.
func confirm(sc *schedsc.Scenario, v *violation) (bool, []string, string) {
	var trace []string
	for i := 0; i < 5; i++ {
		b, r := sc.Body()
		ex := vs.Replay(cfgFor(sc), b, v.Decisions)
		if ex.Term == vs.TermToolError {
			return false, nil, "replay: " + ex.ToolErr
		}
		if vis := schedsc.Visible(r, ex); vis != v.Visible {
			return false, nil, fmt.Sprintf("NONDETERMINISM: replay %d gave a different visible trace", i)
		}
		found := false
		for _, f := range schedsc.Check(r, ex) {
			if f.Prop == v.Prop {
				found = true
			}
		}
		if !found {
			return false, nil, fmt.Sprintf("NONDETERMINISM: replay %d did not reproduce the %s violation", i, v.Prop)
		}
		trace = ex.Trace
	}
	return true, trace, ""
}

// canonical renders what an execution means independently of the order in
// which concurrent events were logged.
func canonical(r *schedsc.Run, ex *vs.Exec) string {
	var ev []string
	for _, e := range ex.Log {
		if e.Obj == "emitter" {
			continue
		}
		ev = append(ev, e.String())
	}
	sort.Strings(ev)
	leaked := 0
	for _, t := range ex.Threads {
		if !t.Done {
			leaked++
		}
	}
	var fs []string
	for _, f := range schedsc.Check(r, ex) {
		fs = append(fs, f.Prop)
	}
	sort.Strings(fs)
	return fmt.Sprintf("%s|wait=%v|%s|leaked=%d|%v", strings.Join(ev, ";"), r.WaitErr, ex.Term, leaked, fs)
}

// xcheck cross-checks the sleep-set reduction against plain DFS: on every
// scenario small enough for both, the sets of canonical outcomes must be equal.
func xcheck() {
	var scs []schedsc.Scenario
	outs := []string{schedsc.OK, schedsc.Err, schedsc.Goexit}
	scs = append(scs, schedsc.Core(1, []int{1, 2}, []bool{false, true}, outs, -1)...)
	scs = append(scs, schedsc.Core(2, []int{1}, []bool{false, true}, outs, -1)...)
	scs = append(scs, schedsc.Core(2, []int{2}, []bool{false}, []string{schedsc.OK, schedsc.Err}, 0)...)
	x, _ := schedsc.Family("C09", "quick")
	for _, s := range x {
		if len(s.Jobs) <= 1 || (len(s.Jobs) == 2 && s.N == 1 && !s.Canceller) {
			scs = append(scs, s)
		}
	}
	var execs [2]int64
	skipped, compared := 0, 0
	for i := range scs {
		sc := &scs[i]
		var sets [2]map[string]bool
		tooBig := false
		for k, strat := range []vs.Strategy{vs.SleepSets, vs.Plain} {
			if tooBig {
				break
			}
			sets[k] = map[string]bool{}
			var cur *schedsc.Run
			body := func() { b, r := sc.Body(); cur = r; b() }
			max := int64(12000)
			if strat == vs.SleepSets {
				max = 600
			}
			st, terr := vs.Explore(vs.Options{Strategy: strat, PreemptBound: -1, Cfg: cfgFor(sc), MaxExecs: max}, body, func(ex *vs.Exec) bool {
				sets[k][canonical(cur, ex)] = true
				return false
			})
			if terr != "" {
				mc.ToolError("xcheck %s: %s", sc.String(), terr)
			}
			if !st.Exhaustive {
				tooBig = true
				break
			}
			execs[k] += st.Execs
		}
		if tooBig {
			skipped++
			continue
		}
		compared++
		if os.Getenv("XCHECK_VERBOSE") != "" {
			fmt.Fprintf(os.Stderr, "xcheck %s: plain=%d sleep=%d\n", sc.String(), execs[0], execs[1])
		}
		for o := range sets[0] {
			if !sets[1][o] {
				mc.ToolError("xcheck %s: outcome found by plain DFS but not under sleep sets: %s", sc.String(), o)
			}
		}
		for o := range sets[1] {
			if !sets[0][o] {
				mc.ToolError("xcheck %s: outcome found under sleep sets but not by plain DFS: %s", sc.String(), o)
			}
		}
	}
	fmt.Printf("xcheck: %d scenarios compared (%d too large for plain DFS skipped), sleep sets %d executions, plain DFS %d executions, identical outcome sets\n", compared, skipped, execs[0], execs[1])
	if compared < 20 {
		mc.ToolError("xcheck compared only %d scenarios", compared)
	}
}

func scenarioKey(sc *schedsc.Scenario) string { return "sched:" + sc.String() }

// confirmRace replays the schedule of a race report in fresh worker processes.
func confirmRace(sc *schedsc.Scenario, v *violation, strat int) bool {
	d := v.Decisions
	if d == nil {
		d = []int{}
	}
	b, _ := json.Marshal(task{Sc: *sc, Strategy: strat, Preempt: -1, Replay: d})
	batch := make([][]byte, 16)
	for i := range batch {
		batch[i] = b
	}
	// rounds of 16 fresh worker processes (the detector misses some pairs in most runs)
	for round := 0; round < 6; round++ {
		hit := false
		err := mc.Pool(16, []string{"-worker"}, batch, func(i int, rb []byte) {
			var r result
			if json.Unmarshal(rb, &r) == nil {
				for _, x := range r.Violations {
					if x.Prop == "C12" {
						hit = true
					}
				}
			}
		})
		if err != nil {
			mc.ToolError("race confirmation: %v", err)
		}
		if hit {
			return true
		}
	}
	return false
}

func replayMain(path string) {
	rp, err := mc.ReadReplay(path)
	if err != nil {
		mc.ToolError("replay: %v", err)
	}
	var sc schedsc.Scenario
	if err := json.Unmarshal(rp.Scenario, &sc); err != nil {
		mc.ToolError("replay: %v", err)
	}
	b, r := sc.Body()
	ex := vs.Replay(cfgFor(&sc), b, rp.Decisions)
	if ex.Term == vs.TermToolError {
		mc.ToolError("replay: %s", ex.ToolErr)
	}
	fmt.Printf("scenario: %s\n", sc.String())
	for i, s := range ex.Trace {
		fmt.Printf("  %3d %s\n", i, s)
	}
	fmt.Println("events:")
	for _, e := range ex.Log {
		fmt.Printf("  %s\n", e.String())
	}
	fmt.Printf("terminal: %s; wait errors: %v\n", ex.Term, r.WaitErr)
	for _, t := range ex.Threads {
		if !t.Done {
			fmt.Printf("  thread %d (%s) blocked on %s\n", t.ID, t.Name, t.Pending)
		}
	}
	hit := false
	for _, f := range schedsc.Check(r, ex) {
		fmt.Printf("finding: %s: %s\n", f.Prop, f.Msg)
		if f.Prop == rp.Property {
			hit = true
		}
	}
	if hit {
		fmt.Printf("VIOLATION property=%s replay=%s\n", rp.Property, path)
		os.Exit(1)
	}
	fmt.Println("not reproduced on this tree")
}

func main() {
	prop := flag.String("prop", "", "property id")
	tier := flag.String("tier", "quick", "quick|thorough")
	worker := flag.Bool("worker", false, "worker mode")
	replay := flag.String("replay", "", "replay file")
	strategy := flag.String("strategy", "sleep", "sleep|plain")
	preempt := flag.Int("preempt", -1, "preemption bound (plain only)")
	deadline := flag.Int("scenario-deadline", 0, "per-scenario deadline in seconds (0: tier default)")
	only := flag.String("only", "", "substring filter on scenario descriptions")
	list := flag.Bool("list", false, "list scenarios and exit")
	allProps := flag.Bool("all-monitors", true, "report violations of any monitored property (attributed to its own id)")
	noEvidence := flag.Bool("no-evidence", false, "do not write the evidence file")
	xc := flag.Bool("xcheck", false, "cross-check sleep sets against plain DFS on small scenarios")
	flag.Parse()
	if *xc {
		xcheck()
		return
	}

	if *worker {
		mc.ServeWorker(func(b []byte) any {
			var t task
			if err := json.Unmarshal(b, &t); err != nil {
				return &result{ToolErr: err.Error()}
			}
			return runTask(&t)
		})
		return
	}
	if *replay != "" {
		replayMain(*replay)
		return
	}
	scs, err := schedsc.Family(*prop, *tier)
	if err != nil {
		mc.ToolError("%v", err)
	}
	if *only != "" {
		var f []schedsc.Scenario
		for _, s := range scs {
			if strings.Contains(s.String(), *only) {
				f = append(f, s)
			}
		}
		scs = f
	}
	if *list {
		for _, s := range scs {
			fmt.Println(s.Name, s.String())
		}
		return
	}
	dl := *deadline
	if dl == 0 {
		dl = 120
		if *tier == "thorough" {
			dl = 1500
		}
	}
	strat := int(vs.SleepSets)
	if *strategy == "plain" {
		strat = int(vs.Plain)
	}
	seed := mc.Seed()
	var tasks [][]byte
	order := make([]int, len(scs))
	for i := range scs {
		order[i] = (i + seed) % len(scs)
	}
	for _, i := range order {
		t := task{Sc: scs[i], Strategy: strat, Preempt: *preempt, DeadlineS: dl}
		if !*allProps {
			t.OnlyProp = *prop
		}
		b, _ := json.Marshal(t)
		tasks = append(tasks, b)
	}
	if vs.RaceBuild {
		dir := os.Getenv("VERIF_RACE_DIR")
		if dir == "" {
			mc.ToolError("race build of schedmc needs VERIF_RACE_DIR")
		}
		os.RemoveAll(dir)
		os.MkdirAll(dir, 0o755)
		os.Setenv("VERIF_RACE_LOG", dir+"/race")
		os.Setenv("GORACE", "log_path="+dir+"/race atexit_sleep_ms=0 halt_on_error=0 exitcode=0")
	}
	rep := mc.NewReporter(*prop)
	var tot vs.Stats
	exhaustive := true
	var capped []string
	var probes []string
	outcomes := 0
	vacuous := 0
	var samples []any
	results := make([]*result, len(tasks))
	done := 0
	toolErr := ""
	err = mc.Pool(mc.Workers(), []string{"-worker"}, tasks, func(i int, b []byte) {
		var r result
		if err := json.Unmarshal(b, &r); err != nil {
			toolErr = "bad worker result: " + err.Error()
			return
		}
		results[i] = &r
		done++
		if r.ToolErr != "" && toolErr == "" {
			toolErr = r.Name + ": " + r.ToolErr
		}
		if done%200 == 0 {
			fmt.Fprintf(os.Stderr, "  .. %d/%d scenarios\n", done, len(tasks))
		}
	})
	if err != nil {
		mc.ToolError("%v", err)
	}
	if toolErr != "" {
		mc.ToolError("%s", toolErr)
	}
	census := map[string][]int{} // (N, goexits, extras) -> max spawned by job count
	for i, r := range results {
		sc := &scs[order[i]]
		tot.Execs += r.Stats.Execs
		tot.Complete += r.Stats.Complete
		tot.Blocked += r.Stats.Blocked
		tot.Nodes += r.Stats.Nodes
		tot.Edges += r.Stats.Edges
		tot.Steps += r.Stats.Steps
		if r.Stats.MaxDepth > tot.MaxDepth {
			tot.MaxDepth = r.Stats.MaxDepth
		}
		outcomes += r.Outcomes
		if r.Outcomes <= 1 && r.Stats.Complete > 1 {
			vacuous++
		}
		if sc.Probe > 0 {
			probes = append(probes, fmt.Sprintf("%s: %d schedules (%d complete) of the preemption-bound-0 search, %s", sc.String(), r.Stats.Execs, r.Stats.Complete,
				map[bool]string{true: "all of them", false: "capped"}[r.Stats.Exhaustive]))
		} else if !r.Stats.Exhaustive && len(r.Violations) == 0 {
			exhaustive = false
			capped = append(capped, fmt.Sprintf("%s (%s after %d executions)", sc.String(), r.Stats.CappedBy, r.Stats.Execs))
		}
		if len(samples) < 4 && r.Sample != nil && (i%97 == 0 || len(samples) == 0) {
			samples = append(samples, map[string]any{"scenario": sc.String(), "decisions": r.Sample.Decisions, "visible_trace": r.Sample.Visible,
				"executions": r.Stats.Execs, "complete": r.Stats.Complete, "distinct_visible_traces": r.Outcomes, "wait_results": r.WaitErrs})
		}
		for vi := range r.Violations {
			v := &r.Violations[vi]
			var trace []string
			if v.Race {
				// the detector reports a pair of stacks once per process: confirm in fresh worker processes
				if !confirmRace(sc, v, strat) {
					// the detector's report stands; only seeing it again failed
					v.Msg += "\n  NOTE: produced during exploration, but it did not reappear in 96 fresh replays of this schedule (the detector misses some racing pairs in most runs)"
				}
			} else {
				ok, tr, why := confirm(sc, v)
				if !ok {
					mc.ToolError("%s: %s", sc.String(), why)
				}
				trace = tr
			}
			scj, _ := json.Marshal(sc)
			rep.Report(&mc.Replay{Property: v.Prop, Engine: "schedmc", Key: scenarioKey(sc), Message: v.Msg, Scenario: scj,
				Decisions: v.Decisions, Trace: trace, Visible: v.Visible,
				Note: "replay: /verif/check " + v.Prop + " --replay <this file>"})
		}
		if sc.Census != "" && r.Stats.Exhaustive {
			key := sc.Census
			for len(census[key]) <= len(sc.Jobs) {
				census[key] = append(census[key], -1)
			}
			census[key][len(sc.Jobs)] = r.MaxSpawned
		}
	}
	censusOut := map[string]any{}
	if *prop == "C03" {
		for _, key := range mc.SortedKeys(census) {
			arr := census[key]
			censusOut[key] = arr
			var n int
			fmt.Sscanf(key, "N=%d", &n)
			prev := -1
			if strings.Contains(key, "fail+") {
				n = 1
			}
			for k := n + 1; k < len(arr); k++ {
				if arr[k] < 0 {
					continue
				}
				if prev >= 0 && arr[k] > prev {
					scj, _ := json.Marshal(map[string]any{"census": key, "by_job_count": arr})
					rep.Report(&mc.Replay{Property: "C03", Engine: "schedmc", Key: "sched-census:" + key,
						Message: fmt.Sprintf("goroutines created grow with the number of jobs for fixed limit: %s -> threads by job count %v", key, arr), Scenario: scj})
				}
				prev = arr[k]
			}
		}
	}
	wall := time.Since(rep.Start).Seconds()
	if !*noEvidence {
		ev := &mc.Evidence{PropertyID: *prop, Tier: *tier, Seed: seed, Level: "model_checking", WallS: wall, Violations: rep.Violations,
			Coverage: map[string]any{
				"states":                        tot.Nodes,
				"transitions":                   tot.Edges,
				"traces_validated_against_impl": tot.Complete,
				"samples":                       samples,
				"exhaustive":                    exhaustive,
				"scenarios":                     len(scs),
				"executions":                    tot.Execs,
				"sleep_blocked_executions":      tot.Blocked,
				"steps_executed":                tot.Steps,
				"max_depth":                     tot.MaxDepth,
				"distinct_visible_traces":       outcomes,
				"scenarios_with_single_outcome": vacuous,
				"strategy":                      *strategy,
				"preemption_bound":              *preempt,
				"capped_scenarios":              capped,
				"boundary_probes":               probes,
				"boundary_probes_note":          "scenarios marked probe/K use limits beyond the exhaustively explored ones; they are searched depth-first with zero preemptions and stop after K schedules. They are listed here and are NOT part of the space the exhaustive flag refers to",
				"known_findings_hit":            rep.KnownHits,
				"thread_census":                 censusOut,
				"race_detector":                 vs.RaceBuild,
				"rule":                          "every scenario of the family is explored over all interleavings (sleep-set DFS, unbounded) of the real scheduler.go rewritten onto the vs shim; states = distinct schedule prefixes, transitions = distinct DFS edges, traces = complete executions of the implementation",
			},
			Assumptions: []string{
				"the vs shim models Go channels/select/context/ticker faithfully (litmus suite, /verif/litmus)",
				"sequentially consistent interleavings only; data races are the subject of C12",
				"ticker fires at most Ticks times per execution",
			}}
		if err := mc.WriteEvidence(ev); err != nil {
			mc.ToolError("evidence: %v", err)
		}
	}
	fmt.Printf("%s %s: %d scenarios, %d executions (%d complete, %d sleep-blocked), %d states, %d transitions, %d distinct visible traces, exhaustive=%v, %.1fs\n",
		*prop, *tier, len(scs), tot.Execs, tot.Complete, tot.Blocked, tot.Nodes, tot.Edges, outcomes, exhaustive, wall)
	for _, c := range capped {
		fmt.Println("  capped:", c)
	}
	os.Exit(rep.ExitCode())
}
