// Command racelitmc binds the race build to Go (DESIGN.md §3.6/§3.7): every
// race litmus program is explored over all interleavings in its rewritten
// form with the race detector on - it must be reported racy exactly when the
// Go memory model says it is - and the unrewritten program is run natively
// under the same detector as a cross-check. Built with -race; the shim and
// the harness are uninstrumented, packages racelit and racelitvs are.
package main

import (
	"context"
	"fmt"
	"os"
	"time"

	"go.uber.org/cff/zzverif/vs"
	"verif/harness/racelit"
	"verif/harness/racelitvs"
)

func logSize() int64 {
	st, err := os.Stat(fmt.Sprintf("%s.%d", os.Getenv("VERIF_RACE_LOG"), os.Getpid()))
	if err != nil {
		return 0
	}
	return st.Size()
}

func main() {
	if !vs.RaceBuild || os.Getenv("VERIF_RACE_LOG") == "" {
		fmt.Println("TOOL-ERROR racelitmc must be built with -race and run with VERIF_RACE_LOG/GORACE log_path set")
		os.Exit(2)
	}
	bad := 0
	var execs int64
	for i := range racelitvs.Progs {
		p := &racelitvs.Progs[i]
		np := &racelit.Progs[i]
		// native cross-check
		before := logSize()
		for r := 0; r < 40 && logSize() == before; r++ {
			ctx, cancel := context.WithCancel(context.Background())
			res := make(chan int, 1)
			go func() { res <- np.Run(ctx, cancel) }()
			select {
			case <-res:
			case <-time.After(10 * time.Second):
				fmt.Printf("TOOL-ERROR race litmus %s: native run did not terminate\n", np.Name)
				os.Exit(2)
			}
			cancel()
		}
		nativeRacy := logSize() > before
		// explored
		seen := logSize()
		racyExecs := 0
		body := func() {
			ctx, cancel := vs.WithCancel(context.Background(), "racelit")
			p.Run(ctx, cancel)
		}
		opt := vs.Options{Strategy: vs.SleepSets, PreemptBound: -1, Cfg: vs.Config{MaxSteps: 500}}
		deadlock := false
		opt.AfterExec = func(ex *vs.Exec) bool {
			if n := logSize(); n > seen {
				seen = n
				racyExecs++
			}
			if ex.Term == vs.TermQuiescent && len(ex.Threads) > 0 && !ex.Threads[0].Done {
				deadlock = true
			}
			return false
		}
		st, terr := vs.Explore(opt, body, func(ex *vs.Exec) bool { return false })
		if terr != "" || !st.Exhaustive || deadlock {
			fmt.Printf("TOOL-ERROR race litmus %s: %s exhaustive=%v deadlock=%v\n", p.Name, terr, st.Exhaustive, deadlock)
			os.Exit(2)
		}
		execs += st.Execs
		explored := racyExecs > 0
		status := "ok"
		if explored != p.Racy || nativeRacy != p.Racy {
			status = "MISMATCH"
			bad++
		}
		fmt.Printf("%-46s %-8s memory-model=%-5v explored=%-5v (%d executions) native=%v\n", p.Name, status, p.Racy, explored, st.Execs, nativeRacy)
	}
	fmt.Printf("race litmus: %d programs, %d explored executions, %d mismatches\n", len(racelitvs.Progs), execs, bad)
	if bad > 0 {
		fmt.Println("TOOL-ERROR race litmus: the race build disagrees with the Go memory model on the programs above")
		os.Exit(2)
	}
}
