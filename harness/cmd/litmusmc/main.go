// Command litmusmc binds the vs shim to Go (DESIGN.md §3.7): every litmus
// program is explored exhaustively in its rewritten form with plain DFS and
// with sleep sets - both outcome sets must equal the set derived from the Go
// specification - and the unrewritten program is run natively many times,
// every native outcome having to be in that set.
package main

import (
	"context"
	"flag"
	"fmt"
	"os"
	"sort"
	"strings"
	"time"

	"go.uber.org/cff/zzverif/vs"
	"verif/harness/litmus"
	"verif/harness/litmusvs"
)

func exploreSet(p *litmusvs.Prog, strat vs.Strategy) (map[string]bool, vs.Stats, string) {
	set := map[string]bool{}
	var out string
	var returned bool
	body := func() {
		returned = false
		ctx, cancel := vs.WithCancel(context.Background(), "litmus")
		out = p.Run(ctx, cancel)
		returned = true
	}
	st, terr := vs.Explore(vs.Options{Strategy: strat, PreemptBound: -1, Cfg: vs.Config{Ticks: p.Ticks, MaxSteps: 500}}, body, func(ex *vs.Exec) bool {
		switch {
		case ex.Term == vs.TermCrash:
			set[fmt.Sprint("CRASH: ", ex.CrashVal)] = true
		case ex.Term == vs.TermHorizon:
			set["HORIZON"] = true
		case !returned:
			set["DEADLOCK"] = true
		default:
			leak := false
			for _, t := range ex.Threads {
				if !t.Done {
					leak = true
				}
			}
			if leak {
				set["LEAK"] = true
			} else {
				set[out] = true
			}
		}
		return false
	})
	return set, st, terr
}

func keys(m map[string]bool) []string {
	var k []string
	for s := range m {
		k = append(k, s)
	}
	sort.Strings(k)
	return k
}

func main() {
	native := flag.Int("native", 2000, "native runs per program")
	flag.Parse()
	bad := 0
	var totalExecs int64
	for i := range litmusvs.Progs {
		p := &litmusvs.Progs[i]
		np := &litmus.Progs[i]
		plain, st1, e1 := exploreSet(p, vs.Plain)
		sleep, st2, e2 := exploreSet(p, vs.SleepSets)
		if e1 != "" || e2 != "" {
			fmt.Printf("TOOL-ERROR litmus %s: %s %s\n", p.Name, e1, e2)
			os.Exit(2)
		}
		totalExecs += st1.Execs + st2.Execs
		want := strings.Join(p.Expected, " | ")
		gp, gs := strings.Join(keys(plain), " | "), strings.Join(keys(sleep), " | ")
		status := "ok"
		if gp != want || gs != want || !st1.Exhaustive || !st2.Exhaustive {
			status = "MISMATCH"
			bad++
		}
		nat := map[string]bool{}
		if np.Native {
			for r := 0; r < *native; r++ {
				ctx, cancel := context.WithCancel(context.Background())
				res := make(chan string, 1)
				go func() { res <- np.Run(ctx, cancel) }()
				select {
				case s := <-res:
					nat[s] = true
				case <-time.After(10 * time.Second):
					nat["NATIVE-TIMEOUT"] = true
				}
				cancel()
			}
			for s := range nat {
				if !plain[s] {
					status = "NATIVE-OUTCOME-NOT-EXPLORED"
					bad++
				}
			}
		}
		fmt.Printf("%-40s %-8s plain=%d execs sleep=%d execs explored={%s} native={%s}\n", p.Name, status, st1.Execs, st2.Execs, gs, strings.Join(keys(nat), " | "))
		if status != "ok" {
			fmt.Printf("    expected {%s} plain {%s} sleep {%s}\n", want, gp, gs)
		}
	}
	fmt.Printf("litmus: %d programs, %d explored executions, %d mismatches\n", len(litmusvs.Progs), totalExecs, bad)
	if bad > 0 {
		fmt.Println("TOOL-ERROR litmus: the vs shim disagrees with Go on the programs above")
		os.Exit(2)
	}
}
