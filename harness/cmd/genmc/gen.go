package main

import (
	"bytes"
	"fmt"
	"os"
	"os/exec"
	"path/filepath"
	"regexp"
	"sort"
	"strings"
	"sync"

	pg "verif/harness/progenum"
)

const modPath = "vgen"
const perPkg = 120

// genSet is one generated module: programs rendered, processed by cff in one
// mode, and (optionally) built into a driver.
type genSet struct {
	dir      string // module root
	mode     string // base | source-map | modifier
	autoInst bool
	progs    []*pg.Program
	pkgOf    map[string]string // program id -> package dir name
	cffOut   map[string]*cffRun
	accepted map[string]bool // program id -> gen file written and cff reported no error for that file
	genFile  map[string]string
	srcFile  map[string]string
	broken   map[string]string  // program id -> compile error of its generated file
	written  map[string]bool    // gen file existed right after the cff run
	perFile  map[string]*cffRun // per-file re-runs after a crash of the tool on the package
	per      int                // programs per package (default perPkg)
	testFile bool               // every shared package also gets an ordinary _test.go file
	race     bool               // build the driver with the race detector
}

type cffRun struct {
	pkg    string
	exit   int
	stderr string
}

func run(dir string, env []string, name string, args ...string) (string, string, int) {
	cmd := exec.Command(name, args...)
	cmd.Dir = dir
	cmd.Env = append(os.Environ(), env...)
	var so, se bytes.Buffer
	cmd.Stdout, cmd.Stderr = &so, &se
	err := cmd.Run()
	code := 0
	if err != nil {
		if ee, ok := err.(*exec.ExitError); ok {
			code = ee.ExitCode()
		} else {
			code = -1
			se.WriteString(err.Error())
		}
	}
	return so.String(), se.String(), code
}

func writeFile(path, content string) {
	os.MkdirAll(filepath.Dir(path), 0o755)
	if err := os.WriteFile(path, []byte(content), 0o644); err != nil {
		panic(err)
	}
}

// write renders the module.
func (g *genSet) write(repo, verifDir string) {
	os.RemoveAll(g.dir)
	g.pkgOf = map[string]string{}
	g.genFile = map[string]string{}
	g.srcFile = map[string]string{}
	writeFile(filepath.Join(g.dir, "go.mod"), fmt.Sprintf("module %s\n\ngo 1.19\n\nrequire (\n\tgo.uber.org/cff v0.1.0\n\tverif/harness v0.0.0\n)\n\nreplace go.uber.org/cff => %s\n\nreplace verif/harness => %s/harness\n", modPath, repo, verifDir))
	sum, _ := os.ReadFile(filepath.Join(verifDir, "harness", "go.sum"))
	writeFile(filepath.Join(g.dir, "go.sum"), string(sum))
	writeFile(filepath.Join(g.dir, "ext", "ext.go"), pg.ExtFile())
	writeFile(filepath.Join(g.dir, "ext", "debug", "debug.go"), "// Package debug is a user package whose name collides with runtime/debug.\npackage debug\n\nconst Marker = 2\n")
	// types that reach a directive only through another package's function signatures; the defining package's
	// name differs from the last element of its import path, or collides with a name the file uses
	writeFile(filepath.Join(g.dir, "ext", "store", "v2", "store.go"), "// Package store has an import path ending in v2.\npackage store\n\ntype Record struct{ N int }\n\ntype Other struct{ M int }\n")
	writeFile(filepath.Join(g.dir, "ext", "go-model", "model.go"), "// Package model lives in a directory whose name is not an identifier.\npackage model\n\ntype Item struct{ N int }\n")
	writeFile(filepath.Join(g.dir, "ext", "inner", "context", "context.go"), "// Package context is a user package named like a standard one.\npackage context\n\ntype Token struct{ N int }\n\n// Context is an interface that the standard context.Context satisfies.\ntype Context interface{ Value(key any) any }\n\ntype holder struct{ h uint64 }\n\nfunc (h holder) Value(any) any { return h.h }\n\n// Mk returns a Context carrying h.\nfunc Mk(h uint64) Context { return holder{h: h} }\n\n// Hash reads the number a Context carries (0 for nil and for foreign implementations).\nfunc Hash(c Context) uint64 {\n\tif c == nil {\n\t\treturn 0\n\t}\n\tv, _ := c.Value(nil).(uint64)\n\treturn v\n}\n")
	writeFile(filepath.Join(g.dir, "ext", "backend", "backend.go"), fmt.Sprintf("// Package backend exposes functions over types of packages its callers do not import.\npackage backend\n\nimport (\n\tictx \"%[1]s/ext/inner/context\"\n\tmodel \"%[1]s/ext/go-model\"\n\tstore \"%[1]s/ext/store/v2\"\n)\n\n"+
		"func Fetch() (*store.Record, error) { return &store.Record{N: 7}, nil }\nfunc Describe(r *store.Record) int { return r.N + 1 }\n"+
		"func Fetch2() store.Other { return store.Other{M: 9} }\nfunc Describe2(o store.Other) int32 { return int32(o.M) }\n"+
		"func Item() model.Item { return model.Item{N: 3} }\nfunc Weigh(i model.Item) int64 { return int64(i.N) * 2 }\n"+
		"func Token() ictx.Token { return ictx.Token{N: 5} }\nfunc Spend(t ictx.Token) uint8 { return uint8(t.N) }\n", modPath))
	writeFile(filepath.Join(g.dir, "ext", "go-debug", "debug.go"), "// Package debug lives in a directory of another name.\npackage debug\n\nconst Marker = 3\n")
	writeFile(filepath.Join(g.dir, "ext", "go-time", "time.go"), "// Package time lives in a directory of another name.\npackage time\n\nconst Marker = 4\n")
	writeFile(filepath.Join(g.dir, "othertime", "othertime.go"), "// Package othertime is a user package that files import under the name time.\npackage othertime\n\nconst Marker = 1\n")
	var pkgs []string
	havePkg := map[string]bool{}
	per := g.per
	if per <= 0 {
		per = perPkg
	}
	for i, p := range g.progs {
		pkg := fmt.Sprintf("f%d", i/per)
		if p.Alone {
			pkg = "a" + strings.ToLower(p.ID)
			pkgs = append(pkgs, pkg)
			writeFile(filepath.Join(g.dir, pkg, "types.go"), pg.TypesFile(pkg))
		} else if !havePkg[pkg] {
			havePkg[pkg] = true
			pkgs = append(pkgs, pkg)
			writeFile(filepath.Join(g.dir, pkg, "types.go"), pg.TypesFile(pkg))
			if g.testFile {
				// the package also has an ordinary test file: the tool then sees the package and its test variants
				writeFile(filepath.Join(g.dir, pkg, "plain_test.go"), "package "+pkg+"\n\nimport \"testing\"\n\nfunc TestPlain(t *testing.T) {}\n")
			}
		}
		g.pkgOf[p.ID] = pkg
		src := filepath.Join(g.dir, pkg, strings.ToLower(p.ID)+".go")
		g.srcFile[p.ID] = src
		g.genFile[p.ID] = filepath.Join(g.dir, pkg, strings.ToLower(p.ID)+"_gen.go")
		writeFile(src, pg.Render(p, pkg, modPath))
	}
	var imp strings.Builder
	imp.WriteString("package main\n\nimport (\n\t\"verif/harness/genrt\"\n")
	for _, pkg := range pkgs {
		fmt.Fprintf(&imp, "\t_ \"%s/%s\"\n", modPath, pkg)
	}
	imp.WriteString(")\n\nfunc main() { genrt.Main() }\n")
	writeFile(filepath.Join(g.dir, "cmd", "driver", "main.go"), imp.String())
}

func (g *genSet) pkgs() []string {
	m := map[string]bool{}
	for _, p := range g.pkgOf {
		m[p] = true
	}
	var r []string
	for p := range m {
		r = append(r, p)
	}
	sort.Strings(r)
	return r
}

var goEnv = []string{"GOFLAGS=-mod=mod", "GOPROXY=off", "GOSUMDB=off", "GOTOOLCHAIN=local"}

// runCff runs the tool on every package (in parallel) and records per-file acceptance.
func (g *genSet) runCff(cffBin string, workers int) {
	g.cffOut = map[string]*cffRun{}
	g.accepted = map[string]bool{}
	var mu sync.Mutex
	var wg sync.WaitGroup
	sem := make(chan struct{}, workers)
	for _, pkg := range g.pkgs() {
		wg.Add(1)
		go func(pkg string) {
			defer wg.Done()
			sem <- struct{}{}
			defer func() { <-sem }()
			args := []string{"-genmode=" + g.mode}
			if g.autoInst {
				args = append(args, "-auto-instrument")
			}
			args = append(args, "./"+pkg)
			_, se, code := run(g.dir, goEnv, cffBin, args...)
			mu.Lock()
			g.cffOut[pkg] = &cffRun{pkg: pkg, exit: code, stderr: se}
			mu.Unlock()
		}(pkg)
	}
	wg.Wait()
	for _, o := range g.cffOut {
		if strings.Contains(o.stderr, "load packages:") {
			fmt.Printf("TOOL-ERROR generated input package %s does not type-check (renderer bug, not a property violation): %s\n", o.pkg, truncate(o.stderr, 1500))
			os.Exit(2)
		}
	}
	// A crash of the tool aborts the whole package: isolate it by re-running
	// the tool on each file of that package alone.
	g.perFile = map[string]*cffRun{}
	for _, p := range g.progs {
		pkg := g.pkgOf[p.ID]
		o := g.cffOut[pkg]
		if !strings.Contains(o.stderr, "panic:") && !strings.Contains(o.stderr, "goroutine ") {
			continue
		}
		if _, err := os.Stat(g.genFile[p.ID]); err == nil {
			continue
		}
		args := []string{"-genmode=" + g.mode}
		if g.autoInst {
			args = append(args, "-auto-instrument")
		}
		args = append(args, "-file="+filepath.Base(g.srcFile[p.ID]), "./"+pkg)
		_, se, code := run(g.dir, goEnv, cffBin, args...)
		g.perFile[p.ID] = &cffRun{pkg: pkg, exit: code, stderr: se}
	}
	g.written = map[string]bool{}
	for _, p := range g.progs {
		out := g.outOf(p.ID)
		_, err := os.Stat(g.genFile[p.ID])
		g.written[p.ID] = err == nil
		named := strings.Contains(out.stderr, filepath.Base(g.srcFile[p.ID])+":")
		g.accepted[p.ID] = err == nil && !named
	}
}

// outOf returns the tool run that decided the fate of program id.
func (g *genSet) outOf(id string) *cffRun {
	if o, ok := g.perFile[id]; ok {
		return o
	}
	return g.cffOut[g.pkgOf[id]]
}

var errLine = regexp.MustCompile(`(?m)^(?:[A-Za-z0-9_./-]*/)?([a-z0-9_]+)\.go:(\d+)(?::(\d+))?: (.*)$`)

// blame maps a compiler error line to the program whose generated file it is
// about (positions may be given relative to //line directives: base names of
// the generated or of the source file).
func (g *genSet) blame(se string) map[string]string {
	byBase := map[string]string{}
	for id := range g.genFile {
		byBase[strings.ToLower(id)] = id
	}
	out := map[string]string{}
	for _, m := range errLine.FindAllStringSubmatch(se, -1) {
		base := strings.TrimSuffix(m[1], "_gen")
		if id, ok := byBase[base]; ok {
			if _, dup := out[id]; !dup {
				out[id] = fmt.Sprintf("%s.go:%s: %s", m[1], m[2], m[4])
			}
		}
	}
	return out
}

// buildDriver builds the driver; generated files that do not compile are
// recorded in g.broken, removed, and the build is retried.
func (g *genSet) buildDriver(overlay, out string) error {
	if g.broken == nil {
		g.broken = map[string]string{}
	}
	for attempt := 0; attempt < 40; attempt++ {
		args := []string{"build"}
		if g.race {
			// the detector watches the repository's code and the generated
			// code only: the shim and the harness are compiled without
			// instrumentation (their ordering is the cooperative scheduler's)
			args = append(args, "-race", "-gcflags=go.uber.org/cff/zzverif/vs=-race=false", "-gcflags=verif/harness/...=-race=false")
		}
		if overlay != "" {
			args = append(args, "-overlay", overlay)
		}
		args = append(args, "-gcflags=-e", "-o", out, "./cmd/driver")
		_, se, code := run(g.dir, goEnv, "go", args...)
		if code == 0 {
			return nil
		}
		removed := 0
		for id, msg := range g.blame(se) {
			if _, dup := g.broken[id]; !dup && g.written[id] {
				g.broken[id] = msg
				os.Rename(g.genFile[id], g.genFile[id]+".broken")
				removed++
			}
		}
		if removed == 0 {
			return fmt.Errorf("driver build failed and no generated file is to blame:\n%s", truncate(se, 3000))
		}
	}
	return fmt.Errorf("driver build did not converge")
}

func truncate(s string, n int) string {
	if len(s) > n {
		return s[:n] + "..."
	}
	return s
}

// mapRangeOverlay makes map iteration in generated code a decision of the
// explorer: generated files that range over a map are rewritten (range m ->
// range vs.MapKeys(m)) and added to a copy of the overlay.
func (g *genSet) mapRangeOverlay(overlay, build string) (string, error) {
	// Every generated package goes through the rewriter: map ranges become
	// decisions of the explorer, and should a template ever introduce
	// channels, goroutines, sync or context observations into generated code,
	// those come under the controlled scheduler too instead of blocking
	// natively.
	var pkgs []string
	for _, pk := range g.pkgs() {
		pkgs = append(pkgs, "./"+pk)
	}
	if len(pkgs) == 0 {
		return overlay, nil
	}
	b, err := os.ReadFile(overlay)
	if err != nil {
		return "", err
	}
	ov := filepath.Join(build, "overlay-gen.json")
	if err := os.WriteFile(ov, b, 0o644); err != nil {
		return "", err
	}
	rw := filepath.Join(mcVerifDir(), "build", "bin", "rewrite")
	out := filepath.Join(build, "rw-gen")
	os.RemoveAll(out)
	// generated files with compile errors would stop the loader: drop them first
	g.broken = map[string]string{}
	g.buildAllQuiet()
	so, se, code := run(g.dir, goEnv, rw, "-repo", g.dir, "-dir", g.dir, "-out", out, "-pkgs", strings.Join(pkgs, ","), "-maprange", "-merge", "-overlay", ov)
	if code != 0 {
		return "", fmt.Errorf("rewriting map ranges of generated code failed: %s %s", so, truncate(se, 2000))
	}
	return ov, nil
}

func mcVerifDir() string {
	if d := os.Getenv("VERIF_DIR"); d != "" {
		return d
	}
	return "/verif"
}

// buildAllQuiet compiles the generated packages, removing files that do not
// compile (recorded in g.broken).
func (g *genSet) buildAllQuiet() {
	for attempt := 0; attempt < 60; attempt++ {
		var pk []string
		for _, p := range g.pkgs() {
			pk = append(pk, "./"+p)
		}
		args := append([]string{"build", "-gcflags=-e"}, pk...)
		_, se, code := run(g.dir, goEnv, "go", args...)
		if code == 0 {
			return
		}
		removed := 0
		for id, msg := range g.blame(se) {
			if _, dup := g.broken[id]; !dup && g.written[id] {
				g.broken[id] = msg
				os.Rename(g.genFile[id], g.genFile[id]+".broken")
				removed++
			}
		}
		if removed == 0 {
			return
		}
	}
}
