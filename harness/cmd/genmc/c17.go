package main

// Property C17 (engine X): generation is deterministic and independent of
// what else is processed.
//
//	(a) permutation oracle: the cff tool is rebuilt from the working tree with
//	    every range-over-map of the generator (internal, internal/pkg, cmd/cff)
//	    and of x/tools' typeutil.Map going through vs.MapKeys; a parent process
//	    enumerates, for every map iteration the tool performs on an input, every
//	    iteration order (all n! for n<=4 keys, reversal/rotations/transpositions
//	    above), one deviation at a time (thorough: pairs), and requires
//	    byte-identical output;
//	(b) every -file subset / explicit output / whole-package invocation of a
//	    multi-file package yields the same bytes per source file; every file of
//	    a large package processed alone yields what the whole-package run wrote;
//	(c) repeated fresh processes yield identical bytes, and the random line-reset
//	    token never survives in the output.

import (
	"bytes"
	"encoding/json"
	"fmt"
	"os"
	"path/filepath"
	"strconv"
	"strings"
	"sync"
	"time"

	"verif/harness/mc"
	pg "verif/harness/progenum"
)

// buildPermCff builds the cff tool with explorer-controlled map iteration.
func buildPermCff(build, repo string) (string, error) {
	rw := filepath.Join(mc.VerifDir(), "build", "bin", "rewrite")
	out := filepath.Join(build, "rw-perm")
	os.RemoveAll(out)
	ov := filepath.Join(build, "overlay-perm.json")
	os.Remove(ov)
	so, se, code := run(repo, goEnv, rw, "-repo", repo, "-out", out, "-vs", filepath.Join(mc.VerifDir(), "engine", "vs"),
		"-pkgs", "./internal,./internal/pkg,./internal/flag,./internal/modifier,./cmd/cff,golang.org/x/tools/go/types/typeutil", "-only-maprange", "-overlay", ov)
	if code != 0 {
		return "", fmt.Errorf("rewriting the generator's map ranges failed: %s %s", so, truncate(se, 2000))
	}
	// the shim's generic MapKeys needs interface types to satisfy comparable (go >= 1.20)
	gm, err := os.ReadFile(filepath.Join(repo, "go.mod"))
	if err != nil {
		return "", err
	}
	lines := strings.Split(string(gm), "\n")
	for i, l := range lines {
		if strings.HasPrefix(l, "go 1.") {
			lines[i] = "go 1.20"
		}
	}
	mf := filepath.Join(build, "perm.mod")
	os.WriteFile(mf, []byte(strings.Join(lines, "\n")), 0o644)
	gs, _ := os.ReadFile(filepath.Join(repo, "go.sum"))
	os.WriteFile(filepath.Join(build, "perm.sum"), gs, 0o644)
	bin := filepath.Join(build, "bin", "cffperm")
	_, se, code = run(repo, append(append([]string{}, goEnv...), "GODEBUG=goindex=0"), "go", "build", "-modfile="+mf, "-overlay", ov, "-o", bin, "./cmd/cff")
	if code != 0 {
		return "", fmt.Errorf("building cff with controlled map iteration failed: %s", truncate(se, 2000))
	}
	return bin, nil
}

func famSize(n int) int {
	if n <= 1 {
		return 1
	}
	if n <= 4 {
		f := 1
		for i := 2; i <= n; i++ {
			f *= i
		}
		return f
	}
	return 2 + (n - 1) + (n - 1)
}

type permJob struct {
	prog  *pg.Program
	mode  string
	spec  string // VERIF_PERM
	out   string
	exit  int
	calls []int
}

func c17Programs(th bool) []*pg.Program {
	var ps []*pg.Program
	for i, p := range specialFamily() {
		if p.Raw != "" || strings.HasPrefix(p.Fam, "S:shadow=") {
			continue
		}
		// quick: two of the four base programs of every feature (alternating)
		if !th && i%2 == 1 {
			continue
		}
		ps = append(ps, p)
	}
	// shapes whose dependency lists name several providers (and one provider twice)
	for _, n := range []string{"dup3", "join", "diamond", "multi"} {
		if !th && (n == "diamond" || n == "multi") {
			continue
		}
		f := pg.Shape(n)
		f.Conc = "2"
		ps = append(ps, flowProg(f, "shape:"+n))
	}
	if pl, err := planFor("C18", "quick"); err == nil {
		for i, p := range pl.progs {
			if i%16 == 0 || th {
				p.Fam = "C18:" + p.Fam
				ps = append(ps, p)
			}
		}
	}
	if pl, err := planFor("C11", "quick"); err == nil {
		for i, p := range pl.progs {
			if i%48 == 0 || (th && i%3 == 0) {
				p.Fam = "C11:" + p.Fam
				ps = append(ps, p)
			}
		}
	}
	// several directives in one file, needing several synthesized imports
	raw := func(fam, body string) {
		ps = append(ps, &pg.Program{Fam: "S:" + fam, Expect: "accept", Raw: "//go:build cff\n// +build cff\n\npackage PKG\n\nimport (\n\t\"go.uber.org/cff\"\n)\n\n" + body})
	}
	raw("multi-directive-synth-imports", `type ctxT = interface{ Done() <-chan struct{} }

func run_ID(em cff.Emitter, a int, b string, c float64) (x int, y string, z float64, err error) {
	ctx := bg_ID()
	err = cff.Flow(ctx, cff.Params(a, b), cff.Results(&x, &y), cff.WithEmitter(em), cff.InstrumentFlow("f1"),
		cff.Task(func(i int) (int64, error) { return int64(i), nil }, cff.Instrument("t1")),
		cff.Task(func(i int64, s string) (int, string) { return int(i), s }, cff.Instrument("t2")),
	)
	if err != nil {
		return
	}
	err = cff.Parallel(ctx, cff.WithEmitter(em), cff.InstrumentParallel("p1"),
		cff.Task(func() error { z = c; return nil }, cff.Instrument("t3")),
		cff.Map(func(k string, v int) {}, map[string]int{b: a}),
		cff.Slice(func(i int, v float64) {}, []float64{c}),
	)
	return
}
`)
	for i, p := range ps {
		p.ID = fmt.Sprintf("D%04d", i)
	}
	return ps
}

const bgHelper = "package %s\n\nimport \"context\"\n\nfunc bg_%s() context.Context { return context.Background() }\n"

func c17Main(tier, build, repo, cffBin string) {
	th := tier == "thorough"
	rep := mc.NewReporter("C17")
	report := func(key, msg string, sc any) {
		scj, _ := json.Marshal(sc)
		rep.Report(&mc.Replay{Property: "C17", Engine: "genmc-x", Key: key, Scenario: scj, Message: msg})
	}
	permBin, err := buildPermCff(build, repo)
	if err != nil {
		mc.ToolError("%v", err)
	}
	progs := c17Programs(th)
	modes := []string{"base", "source-map"}
	evaluations := 0
	var samples []any

	// ---- (a) permutation oracle, one package per program
	type result struct {
		sites, runs, diffs int
	}
	permRuns, permSites, maxKeys := 0, 0, 0
	siteHist := map[int]int{}
	for _, mode := range modes {
		g := &genSet{dir: filepath.Join(build, "perm-"+mode), mode: mode, progs: progs, per: 1}
		g.write(repo, mc.VerifDir())
		for _, p := range progs {
			if p.Raw != "" {
				writeFile(filepath.Join(g.dir, g.pkgOf[p.ID], "zz_bg.go"), fmt.Sprintf(bgHelper, g.pkgOf[p.ID], p.ID))
			}
		}
		// resolve the module once
		run(g.dir, goEnv, "go", "list", "-tags", "cff", "./...")
		type job struct {
			p    *pg.Program
			spec string
		}
		runOne := func(p *pg.Program, spec, outName string) (string, []int, string) {
			pkg := g.pkgOf[p.ID]
			outPath := filepath.Join(g.dir, pkg, outName)
			os.Remove(outPath)
			logf := outPath + ".permlog"
			os.Remove(logf)
			env := append(append([]string{}, goEnv...), "VERIF_PERM_LOG="+logf)
			if spec != "" {
				env = append(env, "VERIF_PERM="+spec)
			}
			src := filepath.Base(g.srcFile[p.ID])
			_, se, code := run(g.dir, env, permBin, "-genmode="+mode, "-file="+src+"="+outPath, "./"+pkg)
			var calls []int
			if b, err := os.ReadFile(logf); err == nil {
				for _, l := range strings.Fields(string(b)) {
					n, _ := strconv.Atoi(l)
					calls = append(calls, n)
				}
			}
			os.Remove(logf)
			b, err := os.ReadFile(outPath)
			if err != nil {
				return "", calls, fmt.Sprintf("exit %d: %s", code, firstLines(se, 3))
			}
			os.Remove(outPath)
			return string(b), calls, ""
		}
		var mu sync.Mutex
		var wg sync.WaitGroup
		sem := make(chan struct{}, mc.Workers())
		for pi, p := range progs {
			if !th && mode == "source-map" && pi%3 != 0 {
				// quick tier: the permutation oracle runs on every program in base mode and on every third in source-map mode
				continue
			}
			wg.Add(1)
			go func(p *pg.Program) {
				defer wg.Done()
				sem <- struct{}{}
				defer func() { <-sem }()
				// every run writes to the same explicit output name so that
				// source-map line directives (which embed it) are comparable
				base, calls, fail := runOne(p, "", "zz_perm_out.go")
				mu.Lock()
				permRuns++
				mu.Unlock()
				if fail != "" {
					// not accepted by the tool: nothing to compare (C13/C14 territory)
					return
				}
				var specs []string
				for k, n := range calls {
					mu.Lock()
					siteHist[n]++
					if n > maxKeys {
						maxKeys = n
					}
					if n >= 2 {
						permSites++
					}
					mu.Unlock()
					for q := 1; q < famSize(n); q++ {
						// quick tier, maps with more than 4 keys: reversal, rotation by one, first transposition
						if !th && n > 4 && q != 1 && q != 2 && q != n+1 {
							continue
						}
						specs = append(specs, fmt.Sprintf("%d:%d", k, q))
					}
				}
				if th {
					// pairs of deviations at small sites
					for k1, n1 := range calls {
						for k2 := k1 + 1; k2 < len(calls); k2++ {
							n2 := calls[k2]
							if n1 < 2 || n2 < 2 || n1 > 3 || n2 > 3 {
								continue
							}
							for q1 := 1; q1 < famSize(n1); q1++ {
								for q2 := 1; q2 < famSize(n2); q2++ {
									specs = append(specs, fmt.Sprintf("%d:%d,%d:%d", k1, q1, k2, q2))
								}
							}
						}
					}
				}
				for _, spec := range specs {
					got, calls2, fail := runOne(p, spec, "zz_perm_out.go")
					mu.Lock()
					permRuns++
					mu.Unlock()
					if fail != "" {
						mu.Lock()
						report(progKey(p)+" mode="+mode+" perm="+spec, "with map iteration order "+spec+" (call:permutation) the tool fails although it succeeds with the sorted order: "+fail, p)
						mu.Unlock()
						continue
					}
					_ = calls2
					if got != base {
						mu.Lock()
						report(progKey(p)+" mode="+mode+" perm", fmt.Sprintf("the generated text depends on map iteration order: deviation %s (map-iteration call:permutation; %d map iterations with key counts %v) changes the output: %s", spec, len(calls), calls, firstTextDiff(base, got)), map[string]any{"program": p, "perm": spec})
						mu.Unlock()
						break
					}
				}
			}(p)
		}
		wg.Wait()
	}
	evaluations += permRuns

	// ---- (b1) file sets: same bytes per source file whatever else is processed
	runs := fileSetRuns(modes)
	execFileSets(cffBin, build, repo, runs)
	ref := map[string]string{}
	fsCompared := 0
	for _, r := range runs {
		for src, content := range r.Outputs {
			key := r.Mode + "/" + src
			// source-map output embeds the output file's base name; compare
			// explicit-output runs only in base mode
			if !r.Default && r.Mode == "source-map" {
				continue
			}
			fsCompared++
			if prev, ok := ref[key]; !ok {
				ref[key] = content
			} else if prev != content {
				report("fileset:"+r.Mode+":"+src, fmt.Sprintf("output for %s differs between invocations of the tool (this one: cff %s): %s", src, strings.Join(r.Args, " "), firstTextDiff(prev, content)), map[string]any{"args": r.Args})
			}
		}
	}
	// the same invocations in a copy of the tree at another place: the text does not depend on where the tree is
	reloc := fileSetRuns(modes)
	execFileSetsAt(cffBin, filepath.Join(build, "fs-elsewhere", "a", "b"), repo, reloc)
	relocCompared := 0
	for i, r := range reloc {
		for src, content := range r.Outputs {
			if prev, ok := runs[i].Outputs[src]; ok {
				relocCompared++
				if prev != content {
					report("relocated:"+r.Mode+":"+src, fmt.Sprintf("output for %s depends on where the source tree is (cff %s run in two copies of the tree): %s", src, strings.Join(r.Args, " "), firstTextDiff(prev, content)), map[string]any{"args": r.Args})
				}
			}
		}
	}
	evaluations += len(reloc)
	// a file that yields output in one invocation yields it in every invocation that covers it
	for _, r := range runs {
		for _, src := range r.Allowed {
			if _, ok := r.Outputs[src]; ok {
				continue
			}
			if _, elsewhere := ref[r.Mode+"/"+src]; elsewhere || r.Mode == "source-map" {
				report("fileset-missing:"+r.Mode+":"+src, fmt.Sprintf("no output for %s in this invocation (cff %s) although other invocations covering the file produce one", src, strings.Join(r.Args, " ")), map[string]any{"args": r.Args})
			}
		}
	}
	evaluations += len(runs)

	// ---- (b2)+(c) large packages: whole-package run twice, then every file alone
	aloneRuns, repeatCompared := 0, 0
	for _, mode := range modes {
		g := &genSet{dir: filepath.Join(build, "det-"+mode), mode: mode, progs: progs}
		g.write(repo, mc.VerifDir())
		for _, p := range progs {
			if p.Raw != "" {
				writeFile(filepath.Join(g.dir, g.pkgOf[p.ID], "zz_bg_"+strings.ToLower(p.ID)+".go"), fmt.Sprintf(bgHelper, g.pkgOf[p.ID], p.ID))
			}
		}
		g.runCff(cffBin, mc.Workers())
		first := map[string]string{}
		for _, p := range progs {
			if b, err := os.ReadFile(g.genFile[p.ID]); err == nil {
				first[p.ID] = string(b)
				if strings.Contains(string(b), "CFF_MAGIC_TOKEN") {
					report(progKey(p)+" mode="+mode+" token", "the random line-reset token survives in the generated file", p)
				}
				os.Remove(g.genFile[p.ID])
			}
		}
		// second fresh process per package
		g.runCff(cffBin, mc.Workers())
		for _, p := range progs {
			b, err := os.ReadFile(g.genFile[p.ID])
			if _, had := first[p.ID]; !had && err != nil {
				continue
			}
			repeatCompared++
			if err != nil || string(b) != first[p.ID] {
				report(progKey(p)+" mode="+mode+" repeat", "two runs of the tool on the same input produced different output: "+firstTextDiff(first[p.ID], string(b)), p)
			}
			os.Remove(g.genFile[p.ID])
		}
		// each file alone. Every worker has its own copy of the module: two invocations of the tool must not
		// run over one directory at the same time (a file the other one has just created is empty for an
		// instant, and an empty file has no build constraint that would keep it out of the package)
		var wg sync.WaitGroup
		var mu sync.Mutex
		queue := make(chan *pg.Program, len(progs))
		for _, p := range progs {
			if _, ok := first[p.ID]; ok {
				queue <- p
			}
		}
		close(queue)
		for w := 0; w < mc.Workers(); w++ {
			wg.Add(1)
			go func(w int) {
				defer wg.Done()
				dir := fmt.Sprintf("%s-alone%d", g.dir, w)
				os.RemoveAll(dir)
				if err := copySources(g.dir, dir); err != nil {
					mc.ToolError("copying %s: %v", g.dir, err)
				}
				defer os.RemoveAll(dir)
				for p := range queue {
					rel, _ := filepath.Rel(g.dir, g.genFile[p.ID])
					outFile := filepath.Join(dir, rel)
					_, se, code := run(dir, goEnv, cffBin, "-genmode="+mode, "-file="+filepath.Base(g.srcFile[p.ID]), "./"+g.pkgOf[p.ID])
					b, err := os.ReadFile(outFile)
					os.Remove(outFile)
					mu.Lock()
					aloneRuns++
					if err != nil || string(b) != first[p.ID] {
						msg := "processing the file alone (-file) produced different output than processing the whole package: " + firstTextDiff(first[p.ID], string(b))
						if err != nil {
							msg += fmt.Sprintf(" (no output; exit %d: %s)", code, firstLines(se, 3))
						}
						report(progKey(p)+" mode="+mode+" alone", msg, p)
					}
					mu.Unlock()
				}
			}(w)
		}
		wg.Wait()
		if len(samples) < 3 && len(progs) > 0 {
			samples = append(samples, map[string]any{"kind": "program", "mode": mode, "program": progKey(progs[len(progs)/2]), "output_bytes": len(first[progs[len(progs)/2].ID])})
		}
	}
	evaluations += aloneRuns + repeatCompared

	// ---- (b3) modifier mode: files of one package that name the same imported package differently (or do
	// not import it at all), whole package vs each file alone, in both file orders
	modCompared := 0
	{
		mk := func(fam string, mod func(p *pg.Program)) *pg.Program {
			f := pg.Shape("single")
			f.Conc = "2"
			p := flowProg(f, "MODDET:"+fam)
			mod(p)
			return p
		}
		base := []*pg.Program{
			mk("time-plain", func(p *pg.Program) { p.Flow.Types[1] = pg.SpTime }),
			mk("time-alias", func(p *pg.Program) { p.Flow.Types[1] = pg.SpTime; p.F.TimeImp = "alias" }),
			mk("ext", func(p *pg.Program) { p.Flow.Types[0], p.Flow.Types[1] = pg.SpExt, pg.SpExt }),
			mk("struct", func(p *pg.Program) {}),
			mk("time-other", func(p *pg.Program) { p.F.TimeImp = "other" }),
		}
		for oi := 0; oi < 2; oi++ {
			var ps []*pg.Program
			for i := range base {
				q := *base[i]
				if oi == 1 {
					q = *base[len(base)-1-i]
				}
				q.Flow = q.Flow.Clone()
				q.ID = fmt.Sprintf("E%d%03d", oi, i)
				ps = append(ps, &q)
			}
			g := &genSet{dir: filepath.Join(build, fmt.Sprintf("det-modifier-%d", oi)), mode: "modifier", progs: ps}
			g.write(repo, mc.VerifDir())
			g.runCff(cffBin, 1)
			whole := map[string]string{}
			for _, p := range ps {
				if b, err := os.ReadFile(g.genFile[p.ID]); err == nil {
					whole[p.ID] = string(b)
					os.Remove(g.genFile[p.ID])
				}
			}
			for _, p := range ps {
				w, ok := whole[p.ID]
				if !ok {
					continue
				}
				_, se, code := run(g.dir, goEnv, cffBin, "-genmode=modifier", "-file="+filepath.Base(g.srcFile[p.ID]), "./"+g.pkgOf[p.ID])
				b, err := os.ReadFile(g.genFile[p.ID])
				os.Remove(g.genFile[p.ID])
				modCompared++
				if err != nil || string(b) != w {
					msg := "modifier mode: processing the file alone (-file) produced different output than processing the whole package: " + firstTextDiff(w, string(b))
					if err != nil {
						msg += fmt.Sprintf(" (no output; exit %d: %s)", code, firstLines(se, 3))
					}
					report(progKey(p)+" mode=modifier alone order="+strconv.Itoa(oi), msg, p)
				}
			}
		}
	}
	evaluations += modCompared
	samples = append(samples, map[string]any{"kind": "map-iteration sites per key count (calls of vs.MapKeys in the generator, summed over programs and modes)", "histogram": siteHist})
	wall := time.Since(rep.Start).Seconds()
	ev := &mc.Evidence{PropertyID: "C17", Tier: tier, Seed: mc.Seed(), Level: "model_checking", WallS: wall, Violations: rep.Violations,
		Coverage: map[string]any{
			"states":                              permSites + len(runs) + 2*len(progs),
			"transitions":                         evaluations,
			"traces_validated_against_impl":       evaluations,
			"evaluations":                         evaluations,
			"distinct_nontrivial":                 permSites,
			"exhaustive":                          true,
			"samples":                             samples,
			"programs":                            len(progs),
			"permutation_runs":                    permRuns,
			"map_iteration_sites_with_2plus_keys": permSites,
			"largest_map":                         maxKeys,
			"file_set_invocations":                len(runs),
			"file_set_outputs_compared":           fsCompared,
			"relocated_tree_outputs_compared":     relocCompared,
			"alone_vs_package_runs":               aloneRuns,
			"modifier_alone_vs_package_runs":      modCompared,
			"repeat_comparisons":                  repeatCompared,
			"known_findings_hit":                  rep.KnownHits,
			"rule":                                "(a) the tool rebuilt with every generator map range under explorer control: for each program and mode a default run records the sequence of map iterations (key counts), then every single deviation (thorough: pairs at sites with <=3 keys) from sorted order is executed - all n! orders for n<=4, reversal/rotations/adjacent transpositions above - and the output must be byte-identical; distinct_nontrivial = map-iteration sites with >=2 keys; (b) every -file subset x explicit/default output of a 5-file package and every file of the large packages alone vs whole package; (c) two fresh processes per package and mode, token scan",
		},
		Assumptions: []string{"process-level nondeterminism other than map iteration order and the random token (e.g. address-dependent behaviour inside go/types) is only sampled by the repeated runs", "maps with more than 4 keys: reversal, rotations and adjacent transpositions instead of all orders (quick tier: reversal, rotation by one and the first transposition only)", "quick tier: the permutation oracle covers every program in base mode and every third program in source-map mode"}}
	if err := mc.WriteEvidence(ev); err != nil {
		mc.ToolError("evidence: %v", err)
	}
	fmt.Printf("C17 %s: %d programs, %d permutation runs over %d map-iteration sites (largest map %d keys), %d file-set invocations, %d alone-vs-package runs, %d repeat comparisons, %.1fs\n",
		tier, len(progs), permRuns, permSites, maxKeys, len(runs), aloneRuns, repeatCompared, wall)
	os.Exit(rep.ExitCode())
}

// copySources copies a generated module without the tool's outputs.
func copySources(from, to string) error {
	return filepath.Walk(from, func(p string, info os.FileInfo, err error) error {
		if err != nil {
			return err
		}
		rel, _ := filepath.Rel(from, p)
		if info.IsDir() {
			return os.MkdirAll(filepath.Join(to, rel), 0o755)
		}
		if strings.HasSuffix(p, "_gen.go") || strings.HasSuffix(p, "_gen_test.go") {
			return nil
		}
		b, err := os.ReadFile(p)
		if err != nil {
			return err
		}
		return os.WriteFile(filepath.Join(to, rel), b, 0o644)
	})
}

func firstTextDiff(a, b string) string {
	la, lb := strings.Split(a, "\n"), strings.Split(b, "\n")
	for i := 0; i < len(la) && i < len(lb); i++ {
		if la[i] != lb[i] {
			return fmt.Sprintf("line %d: %q vs %q", i+1, truncate(la[i], 160), truncate(lb[i], 160))
		}
	}
	return fmt.Sprintf("%d vs %d lines", len(la), len(lb))
}

var _ = bytes.Compare
