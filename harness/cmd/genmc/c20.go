package main

// Property C20, second clause: modifier mode emits code that compiles and
// behaves like base-mode code for flows built from Params, Results,
// Concurrency and plain Tasks.

import (
	"encoding/json"
	"fmt"
	"sort"
	"strings"

	"verif/harness/genrt"
	"verif/harness/mc"
	"verif/harness/probe"
	pg "verif/harness/progenum"
)

func modFamily(th bool) []*pg.Program {
	var ps []*pg.Program
	shapes := []string{"single", "source", "chain2", "fork", "join", "multi", "pthru", "dup3"}
	if th {
		shapes = append(shapes, "chain3", "diamond", "indep3")
	}
	for _, n := range shapes {
		for _, conc := range []string{"2", "expr"} {
			f := pg.Shape(n)
			f.Conc = conc
			ps = append(ps, flowProg(f, "MOD:shape:"+n))
		}
	}
	for _, n := range []string{"chain2", "join"} {
		f := exprConc(pg.Shape(n))
		for _, o := range pg.TaskOrders(f) {
			g := f.Clone()
			g.Order = o
			ps = append(ps, flowProg(g, "MOD:LT:"+n))
		}
	}
	for _, sp := range []string{pg.SpPtr, pg.SpBasic, pg.SpSlice, pg.SpMap, pg.SpGeneric, pg.SpExt} {
		f := exprConc(pg.Shape("multi"))
		for i := range f.Types {
			f.Types[i] = sp
		}
		ps = append(ps, flowProg(f, "MOD:types="+sp))
	}
	for _, form := range []string{"func", "method", "var"} {
		f := exprConc(pg.Shape("chain2"))
		for i := range f.Tasks {
			f.Tasks[i].Form = form
			f.Tasks[i].Ctx = i%2 == 0
		}
		ps = append(ps, flowProg(f, "MOD:form="+form))
	}
	feat := func(name string, mod func(p *pg.Program)) {
		p := flowProg(exprConc(pg.Shape("chain2")), "MOD:"+name)
		mod(p)
		ps = append(ps, p)
	}
	feat("ctx-alias", func(p *pg.Program) { p.F.CtxAlias = "xctx"; p.Flow.Tasks[0].Ctx = true })
	feat("time-plain", func(p *pg.Program) { p.F.TimeImp = "plain" })
	feat("time-alias", func(p *pg.Program) { p.F.TimeImp = "alias" })
	feat("time-other", func(p *pg.Program) { p.F.TimeImp = "other" })
	feat("debug-other", func(p *pg.Program) { p.F.DebugImp = "other" })
	feat("debug-dirname", func(p *pg.Program) { p.F.DebugImp = "dirname" })
	feat("time-dirname", func(p *pg.Program) { p.F.TimeImp = "dirname" })
	feat("cff-alias", func(p *pg.Program) { p.F.CffAlias = "c" })
	feat("surround", func(p *pg.Program) { p.F.Surround = true })
	// hand-written inputs (compiled in both modes, not executed)
	for _, p := range specialFamily() {
		if p.Raw != "" && (strings.Contains(p.Fam, "types-spelled-differently") || strings.Contains(p.Fam, "results-same-type-twice") || strings.Contains(p.Fam, "very-long-line") || (strings.Contains(p.Fam, "indirect-type") && !strings.Contains(p.Fam, "parallel"))) {
			q := *p
			q.Fam = "MOD:raw:" + strings.TrimPrefix(p.Fam, "S:")
			ps = append(ps, &q)
		}
	}
	for i, p := range ps {
		p.ID = fmt.Sprintf("M%04d", i)
	}
	return ps
}

func c20Modifier(tier, build, overlay, repo, cffBin string, rep *mc.Reporter) map[string]any {
	th := tier == "thorough"
	progs := modFamily(th)
	pl := &plan{progs: progs, modes: []genMode{{"base", false}}}
	pl.scen = func(p *pg.Program) []genrt.Scenario {
		var out []genrt.Scenario
		if p.Flow == nil {
			return nil // hand-written input: compiled only
		}
		ns := []int{1, 2}
		if p.Flow.Conc != "expr" {
			ns = []int{0}
		}
		for _, n := range ns {
			out = append(out, base(p, n))
		}
		n := ns[len(ns)-1]
		for _, id := range failable(p) {
			out = append(out, withDec(base(p, n), []string{id}, probe.Fail))
		}
		for _, id := range panickable(p) {
			sc := withDec(base(p, n), []string{id}, probe.Panic)
			sc.PanicKind = "error"
			out = append(out, sc)
		}
		return out
	}
	maxK2 := 3
	if th {
		maxK2 = 4
	}
	var tasks []genrt.Task
	var taskProg []*pg.Program
	for _, p := range progs {
		for _, sc := range sizeScenarios(p, pl.scen(p), maxK2) {
			tasks = append(tasks, genrt.Task{Sc: sc, DeadlineS: 90})
			taskProg = append(taskProg, p)
		}
	}
	before := rep.Violations
	b := execPlan("C20", tier, pl, genMode{"base", false}, "-mbase", tasks, taskProg, build, overlay, repo, cffBin, rep)
	if rep.Violations > before {
		// the base-mode output misbehaves: not a C20 matter, but the comparison below would be meaningless
		fmt.Println("  note: base-mode output of the MOD family raised violations (reported above under their own properties)")
	}
	m := execPlan("C20", tier, pl, genMode{"modifier", false}, "-mmod", tasks, taskProg, build, overlay, repo, cffBin, rep)
	compared, differing := 0, 0
	var keys []string
	for k := range b.outcomes {
		keys = append(keys, k)
	}
	sort.Strings(keys)
	var sample any
	for _, k := range keys {
		mo, ok := m.outcomes[k]
		if !ok {
			continue // not accepted / not compiling in modifier mode: reported by execPlan as C14/C13
		}
		compared++
		if strings.Join(mo, "|") != strings.Join(b.outcomes[k], "|") {
			differing++
			scj, _ := json.Marshal(map[string]any{"scenario": k})
			rep.Report(&mc.Replay{Property: "C20", Engine: "genmc", Key: k + " modifier-vs-base", Scenario: scj,
				Message: fmt.Sprintf("modifier-mode code behaves differently from base-mode code: observable outcomes over all schedules are %v in base mode and %v in modifier mode", b.outcomes[k], mo)})
		}
		if sample == nil {
			sample = map[string]any{"scenario": k, "base_outcomes": b.outcomes[k], "modifier_outcomes": mo}
		}
	}
	return map[string]any{
		"modifier_programs":               len(progs),
		"modifier_scenarios":              len(tasks),
		"modifier_outcome_sets_compared":  compared,
		"modifier_outcome_sets_differing": differing,
		"modifier_executions":             b.tot.Execs + m.tot.Execs,
		"modifier_programs_rejected":      m.rejected,
		"modifier_programs_not_compiling": m.broken,
		"modifier_exhaustive":             b.exhaustive && m.exhaustive,
		"modifier_sample":                 sample,
	}
}
