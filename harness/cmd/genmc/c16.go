package main

// Property C16 (engine X, DESIGN.md §5/§6): only directives are rewritten,
// build tags are exactly inverted, nothing else is written.
//
//	(a) every build-constraint header inside the bound goes through the real
//	    writeInvertedCffTag (driver injected into the cff module by overlay)
//	    and, for those that select the file under the cff tag, end-to-end
//	    through the cff binary; go/build decides selection for all 8 tag
//	    assignments;
//	(b) for every accepted program of the C13 families the source and the
//	    output are compared with the directive spans masked;
//	(c) every non-empty subset of a package's files x {default output, =OUT}
//	    x modes is processed in a fresh copy of the tree, hashed before/after.

import (
	"bytes"
	"crypto/sha1"
	"encoding/json"
	"fmt"
	"go/ast"
	"go/build"
	"go/parser"
	"go/scanner"
	"go/token"
	"io"
	"io/fs"
	"os"
	"path/filepath"
	"sort"
	"strings"
	"sync"
	"time"

	"verif/harness/mc"
	pg "verif/harness/progenum"
)

type xViolation struct {
	Header string `json:"header"`
	Output string `json:"output"`
	Sigma  string `json:"sigma"`
	Msg    string `json:"msg"`
}

type xResult struct {
	Headers    int            `json:"headers"`
	Evals      int            `json:"evaluations"`
	Distinct   int            `json:"distinct_outputs"`
	ByForm     map[string]int `json:"by_form"`
	Violations []xViolation   `json:"violations"`
	Samples    []xViolation   `json:"samples"`
	Selected   map[string]int `json:"selected_counts"`
	CffHeaders []string       `json:"cff_headers"`
}

// buildXdrv builds the engine-X driver inside the cff module of repo.
func buildXdrv(build, repo string) (string, error) {
	ov := map[string]map[string]string{"Replace": {
		filepath.Join(repo, "internal", "zz_verif_export.go"): filepath.Join(mc.VerifDir(), "engine", "xenum", "export", "zz_verif_export.go"),
		filepath.Join(repo, "zzverif", "xdrv", "main.go"):     filepath.Join(mc.VerifDir(), "engine", "xenum", "xdrv", "main.go"),
	}}
	b, _ := json.Marshal(ov)
	ovf := filepath.Join(build, "overlay-x.json")
	if err := os.WriteFile(ovf, b, 0o644); err != nil {
		return "", err
	}
	out := filepath.Join(build, "bin", "xdrv")
	_, se, code := run(repo, goEnv, "go", "build", "-overlay", ovf, "-o", out, "./zzverif/xdrv")
	if code != 0 {
		return "", fmt.Errorf("building xdrv failed: %s", truncate(se, 2000))
	}
	return out, nil
}

var xTags = []string{"cff", "a", "b"}

// selectedHdr: is a file with this header selected under the given tags?
func selectedHdr(header string, on map[string]bool) (bool, error) {
	src := header + "package p\n"
	ctx := build.Default
	ctx.GOOS, ctx.GOARCH = "linux", "amd64"
	ctx.CgoEnabled = false
	ctx.BuildTags, ctx.ToolTags, ctx.ReleaseTags = nil, nil, nil
	for t, v := range on {
		if v {
			ctx.BuildTags = append(ctx.BuildTags, t)
		}
	}
	sort.Strings(ctx.BuildTags)
	ctx.OpenFile = func(path string) (io.ReadCloser, error) { return io.NopCloser(strings.NewReader(src)), nil }
	return ctx.MatchFile("/x", "f.go")
}

func headerOf(src []byte) string {
	fset := token.NewFileSet()
	f, err := parser.ParseFile(fset, "x.go", src, parser.PackageClauseOnly|parser.ParseComments)
	if err != nil {
		return ""
	}
	return string(src[:fset.Position(f.Package).Offset])
}

func writeGoMod(dir, repo string) {
	writeFile(filepath.Join(dir, "go.mod"), fmt.Sprintf("module %s\n\ngo 1.19\n\nrequire (\n\tgo.uber.org/cff v0.1.0\n\tverif/harness v0.0.0\n)\n\nreplace go.uber.org/cff => %s\n\nreplace verif/harness => %s/harness\n", modPath, repo, mc.VerifDir()))
	sum, _ := os.ReadFile(filepath.Join(mc.VerifDir(), "harness", "go.sum"))
	writeFile(filepath.Join(dir, "go.sum"), string(sum))
}

func cffArgs(mode string, extra ...string) []string {
	return append([]string{"-genmode=" + mode}, extra...)
}

// ---------------------------------------------------------------- (b) preservation

// maskSpans replaces byte spans by the placeholder identifier.
func maskSpans(src []byte, spans [][2]int) []byte {
	var b bytes.Buffer
	last := 0
	for _, s := range spans {
		b.Write(src[last:s[0]])
		b.WriteString("__CFF_DIRECTIVE__")
		last = s[1]
	}
	b.Write(src[last:])
	return b.Bytes()
}

func cffImportName(f *ast.File) string {
	for _, imp := range f.Imports {
		if strings.Trim(imp.Path.Value, `"`) == "go.uber.org/cff" {
			if imp.Name != nil {
				return imp.Name.Name
			}
			return "cff"
		}
	}
	return ""
}

// directiveSpans: outermost cff.Flow / cff.Parallel calls of a source file.
func directiveSpans(fset *token.FileSet, f *ast.File) [][2]int {
	name := cffImportName(f)
	var spans [][2]int
	if name == "" {
		return nil
	}
	ast.Inspect(f, func(n ast.Node) bool {
		call, ok := n.(*ast.CallExpr)
		if !ok {
			return true
		}
		if sel, ok := call.Fun.(*ast.SelectorExpr); ok {
			if id, ok := sel.X.(*ast.Ident); ok && id.Name == name && (sel.Sel.Name == "Flow" || sel.Sel.Name == "Parallel") {
				spans = append(spans, [2]int{fset.Position(call.Pos()).Offset, fset.Position(call.End()).Offset})
				return false
			}
		}
		return true
	})
	return spans
}

// generatedSpans: outermost `func() (err error) {...}()` calls of an output file.
func generatedSpans(fset *token.FileSet, f *ast.File) [][2]int {
	var spans [][2]int
	ast.Inspect(f, func(n ast.Node) bool {
		call, ok := n.(*ast.CallExpr)
		if !ok || len(call.Args) != 0 {
			return true
		}
		lit, ok := call.Fun.(*ast.FuncLit)
		if !ok || lit.Type.Params.NumFields() != 0 || lit.Type.Results == nil || len(lit.Type.Results.List) != 1 {
			return true
		}
		r := lit.Type.Results.List[0]
		if len(r.Names) != 1 || r.Names[0].Name != "err" {
			return true
		}
		if id, ok := r.Type.(*ast.Ident); !ok || id.Name != "error" {
			return true
		}
		// positions relative to the file as written (ignore //line directives)
		spans = append(spans, [2]int{fset.PositionFor(call.Pos(), false).Offset, fset.PositionFor(call.End(), false).Offset})
		return false
	})
	return spans
}

// declsOf returns the token stream of every non-import declaration of a
// masked file. Comments and semicolons (explicit or inserted at line ends) are
// dropped, so the comparison does not depend on line breaks: cff re-formats the
// file, and a one-line function literal around a directive legitimately becomes
// a multi-line one.
func declsOf(src []byte) ([]string, []string, error) {
	fset := token.NewFileSet()
	f, err := parser.ParseFile(fset, "m.go", src, 0)
	if err != nil {
		return nil, nil, err
	}
	var decls, imps []string
	for _, imp := range f.Imports {
		n := ""
		if imp.Name != nil {
			n = imp.Name.Name + " "
		}
		imps = append(imps, n+imp.Path.Value)
	}
	for _, d := range f.Decls {
		if g, ok := d.(*ast.GenDecl); ok && g.Tok == token.IMPORT {
			continue
		}
		seg := src[fset.Position(d.Pos()).Offset:fset.Position(d.End()).Offset]
		fs := token.NewFileSet()
		file := fs.AddFile("d.go", fs.Base(), len(seg))
		var sc scanner.Scanner
		sc.Init(file, seg, nil, 0)
		var b strings.Builder
		for {
			_, tok, lit := sc.Scan()
			if tok == token.EOF {
				break
			}
			if tok == token.SEMICOLON {
				continue
			}
			if lit != "" {
				b.WriteString(lit)
			} else {
				b.WriteString(tok.String())
			}
			b.WriteByte(' ')
		}
		decls = append(decls, b.String())
	}
	return decls, imps, nil
}

// comparePreserved returns "" if out is src with only directive calls replaced.
func comparePreserved(srcPath, outPath string) (string, int) {
	src, err := os.ReadFile(srcPath)
	if err != nil {
		return "tool: " + err.Error(), 0
	}
	out, err := os.ReadFile(outPath)
	if err != nil {
		return "tool: " + err.Error(), 0
	}
	fs1 := token.NewFileSet()
	f1, err := parser.ParseFile(fs1, srcPath, src, 0)
	if err != nil {
		return "tool: source does not parse: " + err.Error(), 0
	}
	fs2 := token.NewFileSet()
	f2, err := parser.ParseFile(fs2, outPath, out, 0)
	if err != nil {
		return "the output does not parse: " + err.Error(), 0
	}
	s1, s2 := directiveSpans(fs1, f1), generatedSpans(fs2, f2)
	if len(s1) != len(s2) {
		return fmt.Sprintf("the source has %d directive calls, the output has %d generated blocks in their place", len(s1), len(s2)), len(s1)
	}
	d1, i1, err := declsOf(maskSpans(src, s1))
	if err != nil {
		return "tool: masked source does not parse: " + err.Error(), len(s1)
	}
	d2, i2, err := declsOf(maskSpans(out, s2))
	if err != nil {
		return "masked output does not parse: " + err.Error(), len(s1)
	}
	if len(d1) != len(d2) {
		return fmt.Sprintf("the source has %d declarations, the output %d", len(d1), len(d2)), len(s1)
	}
	for i := range d1 {
		if d1[i] != d2[i] {
			return fmt.Sprintf("declaration %d differs outside the directive call:\n--- source\n%s\n--- output\n%s", i, truncate(d1[i], 700), truncate(d2[i], 700)), len(s1)
		}
	}
	have := map[string]bool{}
	for _, i := range i2 {
		have[i] = true
	}
	for _, i := range i1 {
		if !have[i] {
			return "import " + i + " of the source is missing from the output", len(s1)
		}
	}
	return "", len(s1)
}

// ---------------------------------------------------------------- (c) file sets

const fsHeader = "//go:build cff\n// +build cff\n\npackage fsp\n\nimport (\n\t\"context\"\n\n\t\"go.uber.org/cff\"\n)\n\n"

var fsFiles = map[string]string{
	"a.go":      fsHeader + "// A runs a flow.\nfunc A(ctx context.Context) (int, error) {\n\tvar x int\n\terr := cff.Flow(ctx, cff.Results(&x), cff.Task(func() int { return 1 }))\n\treturn x, err\n}\n",
	"b.v2.go":   fsHeader + "// B runs a parallel.\nfunc B(ctx context.Context) error {\n\treturn cff.Parallel(ctx, cff.Task(func() {}), cff.Slice(func(i int, s string) {}, []string{\"x\"}))\n}\n",
	"xa.go":     fsHeader + "// XA lives in a file whose name ends in a.go.\nfunc XA(ctx context.Context) (string, error) {\n\tvar x string\n\terr := cff.Flow(ctx, cff.Results(&x), cff.Task(func() string { return \"xa\" }))\n\treturn x, err\n}\n",
	"c.go":      "//go:build cff\n// +build cff\n\npackage fsp\n\n// C has the tag but no directive.\nfunc C() int { return 3 }\n",
	"d_test.go": "//go:build cff\n// +build cff\n\npackage fsp\n\nimport (\n\t\"context\"\n\t\"testing\"\n\n\t\"go.uber.org/cff\"\n)\n\n// debug is a test helper whose name equals that of a package the generated code imports.\nfunc debug(args ...any) {}\n\nfunc TestD(t *testing.T) {\n\tvar x string\n\tif err := cff.Flow(context.Background(), cff.Results(&x), cff.Task(func() string { return \"d\" })); err != nil {\n\t\tt.Fatal(err)\n\t}\n}\n",
	"e.go":      "package fsp\n\n// E is an ordinary file without the cff tag.\nfunc E() int { return 5 }\n",
	// a source file whose name merely contains _test
	"f_testutil.go": fsHeader + "// FT lives in a file that is not a test file.\nfunc FT(ctx context.Context) (uint8, error) {\n\tvar x uint8\n\terr := cff.Flow(ctx, cff.Results(&x), cff.Task(func() uint8 { return 6 }))\n\treturn x, err\n}\n",
}

var fsHasDirective = map[string]bool{"a.go": true, "b.v2.go": true, "d_test.go": true, "xa.go": true, "f_testutil.go": true}

// second package of the module, with the same file base name as the first
var fsOther = map[string]string{
	"a.go": strings.Replace(fsHeader, "package fsp", "package fsq", 1) + "// A of the other package.\nfunc A(ctx context.Context) (int, error) {\n\tvar x int\n\terr := cff.Flow(ctx, cff.Results(&x), cff.Task(func() int { return 2 }))\n\treturn x, err\n}\n",
}

func defaultOut(name string) string {
	if strings.HasSuffix(name, "_test.go") {
		return strings.TrimSuffix(name, "_test.go") + "_gen_test.go"
	}
	return strings.TrimSuffix(name, ".go") + "_gen.go"
}

func hashTree(root string) map[string]string {
	m := map[string]string{}
	filepath.WalkDir(root, func(p string, d fs.DirEntry, err error) error {
		if err != nil {
			return nil
		}
		rel, _ := filepath.Rel(root, p)
		if d.IsDir() {
			m[rel+"/"] = "dir"
			return nil
		}
		b, _ := os.ReadFile(p)
		info, _ := d.Info()
		m[rel] = fmt.Sprintf("%x/%v", sha1.Sum(b), info.Mode().Perm())
		return nil
	})
	return m
}

type fsRun struct {
	Desc     string
	Mode     string
	Args     []string
	Allowed  map[string]string // relative path -> source file it is the output of
	Default  bool              // every output at its default path
	AbsOut   bool              // ROOT/ in the arguments stands for the absolute path of the tree
	Exit     int
	Stderr   string
	Changed  []string
	Outputs  map[string]string // source file -> content of its output
	Problems []string
}

func (r *fsRun) exec(cffBin, root, repo string) {
	os.RemoveAll(root)
	writeGoMod(root, repo)
	for n, c := range fsFiles {
		writeFile(filepath.Join(root, "fsp", n), c)
	}
	for n, c := range fsOther {
		writeFile(filepath.Join(root, "fsq", n), c)
	}
	os.MkdirAll(filepath.Join(root, "outdir"), 0o755)
	for p := range r.Allowed {
		os.MkdirAll(filepath.Join(root, filepath.Dir(p)), 0o755)
	}
	if r.AbsOut {
		for i, a := range r.Args {
			r.Args[i] = strings.Replace(a, "ROOT/", root+"/", 1)
		}
	}
	tmp := root + "-tmp"
	os.RemoveAll(tmp)
	os.MkdirAll(tmp, 0o755)
	// resolve dependencies once so that go.mod/go.sum do not change during the run
	run(root, goEnv, "go", "list", "-tags", "cff", "./...")
	before := hashTree(root)
	_, se, code := run(root, append(append([]string{}, goEnv...), "TMPDIR="+tmp), cffBin, r.Args...)
	r.Exit, r.Stderr = code, se
	after := hashTree(root)
	r.Outputs = map[string]string{}
	for p, h := range after {
		if before[p] != h {
			r.Changed = append(r.Changed, p)
			src, ok := r.Allowed[p]
			if !ok {
				if _, existed := before[p]; existed {
					r.Problems = append(r.Problems, "modified "+p+", which is not an output path of this invocation")
				} else {
					r.Problems = append(r.Problems, "created "+p+", which is not a documented output path of this invocation")
				}
				continue
			}
			b, _ := os.ReadFile(filepath.Join(root, p))
			r.Outputs[src] = string(b)
		}
	}
	for p := range before {
		if _, ok := after[p]; !ok {
			r.Problems = append(r.Problems, "deleted "+p)
		}
	}
	for p, src := range r.Allowed {
		if _, ok := after[p]; !ok {
			r.Problems = append(r.Problems, fmt.Sprintf("no output at the documented path %s for %s", p, src))
		}
	}
	if code != 0 {
		r.Problems = append(r.Problems, fmt.Sprintf("cff exited %d on a valid package: %s", code, firstLines(se, 3)))
	}
	if ents, _ := os.ReadDir(tmp); len(ents) > 0 {
		r.Problems = append(r.Problems, fmt.Sprintf("left %d file(s) in the temporary directory", len(ents)))
	}
	sort.Strings(r.Changed)
	os.RemoveAll(tmp)
}

// fileSetRuns enumerates every non-empty subset of the processable files x
// every choice of default/explicit output, plus the whole package.
func fileSetRuns(modes []string) []*fsRun {
	names := []string{"a.go", "b.v2.go", "c.go", "d_test.go"}
	var runs []*fsRun
	for _, mode := range modes {
		whole := &fsRun{Desc: "whole package", Mode: mode, Args: cffArgs(mode, "./fsp"), Allowed: map[string]string{}, Default: true}
		for _, n := range append(append([]string{}, names...), "xa.go", "f_testutil.go") {
			if fsHasDirective[n] {
				whole.Allowed[filepath.Join("fsp", defaultOut(n))] = n
			}
		}
		runs = append(runs, whole)
		// one invocation covering both packages of the module (same file base names in both)
		all := &fsRun{Desc: "all packages (./...)", Mode: mode, Args: cffArgs(mode, "./..."), Allowed: map[string]string{}, Default: true}
		for p, src := range whole.Allowed {
			all.Allowed[p] = src
		}
		all.Allowed[filepath.Join("fsq", "a_gen.go")] = "fsq/a.go"
		runs = append(runs, all)
		// the second package on its own
		other := &fsRun{Desc: "package fsq alone", Mode: mode, Args: cffArgs(mode, "./fsq"), Allowed: map[string]string{filepath.Join("fsq", "a_gen.go"): "fsq/a.go"}, Default: true}
		runs = append(runs, other)
		{
			r := &fsRun{Mode: mode, Allowed: map[string]string{filepath.Join("fsp", "f_testutil_gen.go"): "f_testutil.go"}, Desc: "-file f_testutil.go", Default: true}
			r.Args = append(cffArgs(mode), "-file=f_testutil.go", "./fsp")
			runs = append(runs, r)
		}
		// spellings of an explicit output path: the path is taken as given, whatever characters it contains
		spell := []string{"o,v2/a_gen.go", "with space/a gen.go", "k=v/a_gen.go", "a=b=c.go", "\u00fcn\u00ef/a_gen.go", ".hidden/a_gen.go", "-dash/-a_gen.go", "a,b,c.go", "deep/er/still/a_gen.go", "a_gen.go.txt"}
		for si, sp := range spell {
			out := filepath.Join("outdir", sp)
			r := &fsRun{Mode: mode, Allowed: map[string]string{out: "a.go"}, Desc: "-file a.go=" + out}
			r.Args = append(cffArgs(mode), "-file=a.go="+out, "./fsp")
			runs = append(runs, r)
			// two files, both with explicit outputs of that spelling
			o2 := filepath.Join("outdir", "second", spell[(si+1)%len(spell)])
			r2 := &fsRun{Mode: mode, Allowed: map[string]string{out: "a.go", o2: "xa.go"}, Desc: "-file a.go=" + out + " xa.go=" + o2}
			r2.Args = append(cffArgs(mode), "-file=a.go="+out, "-file=xa.go="+o2, "./fsp")
			runs = append(runs, r2)
		}
		{
			// an absolute output path
			r := &fsRun{Mode: mode, Allowed: map[string]string{filepath.Join("outdir", "abs", "a_gen.go"): "a.go"}, Desc: "-file a.go=<absolute path>", AbsOut: true}
			r.Args = append(cffArgs(mode), "-file=a.go=ROOT/outdir/abs/a_gen.go", "./fsp")
			runs = append(runs, r)
		}
		for m := 1; m < 1<<len(names); m++ {
			var sub []string
			for i, n := range names {
				if m&(1<<i) != 0 {
					sub = append(sub, n)
				}
			}
			for om := 0; om < 1<<len(sub); om++ {
				r := &fsRun{Mode: mode, Allowed: map[string]string{}, Default: om == 0}
				args := cffArgs(mode)
				var desc []string
				for i, n := range sub {
					if om&(1<<i) != 0 {
						out := filepath.Join("outdir", "x_"+n)
						if i%2 == 1 {
							out = filepath.Join("fsp", "zz_"+strings.TrimSuffix(n, ".go")+"_out.go")
						}
						args = append(args, "-file="+n+"="+out)
						desc = append(desc, n+"="+out)
						if fsHasDirective[n] {
							r.Allowed[out] = n
						}
					} else {
						args = append(args, "-file="+n)
						desc = append(desc, n)
						if fsHasDirective[n] {
							r.Allowed[filepath.Join("fsp", defaultOut(n))] = n
						}
					}
				}
				r.Args = append(args, "./fsp")
				r.Desc = "-file " + strings.Join(desc, " ")
				runs = append(runs, r)
			}
		}
	}
	return runs
}

func execFileSets(cffBin, build, repo string, runs []*fsRun) {
	execFileSetsAt(cffBin, filepath.Join(build, "fs"), repo, runs)
}

// execFileSetsAt runs every invocation in a fresh copy of the tree under dir.
func execFileSetsAt(cffBin, dir, repo string, runs []*fsRun) {
	var wg sync.WaitGroup
	sem := make(chan struct{}, mc.Workers())
	for i, r := range runs {
		wg.Add(1)
		go func(i int, r *fsRun) {
			defer wg.Done()
			sem <- struct{}{}
			defer func() { <-sem }()
			root := filepath.Join(dir, fmt.Sprintf("r%03d", i))
			r.exec(cffBin, root, repo)
			os.RemoveAll(root)
		}(i, r)
	}
	wg.Wait()
}

// ---------------------------------------------------------------- main

func c16Main(tier, build, repo, cffBin string) {
	th := tier == "thorough"
	rep := mc.NewReporter("C16")
	report := func(key, msg string, sc any) {
		scj, _ := json.Marshal(sc)
		rep.Report(&mc.Replay{Property: "C16", Engine: "genmc-x", Key: key, Scenario: scj, Message: msg})
	}
	// (a) constraint space through the real writeInvertedCffTag
	xd, err := buildXdrv(build, repo)
	if err != nil {
		mc.ToolError("%v", err)
	}
	depth := "2"
	args := []string{"-depth", depth, "-list-cff"}
	if th {
		args = append(args, "-mixed")
	}
	so, se, code := run(build, nil, xd, args...)
	if code != 0 {
		mc.ToolError("xdrv failed: %s", truncate(se, 2000))
	}
	var xr xResult
	if err := json.Unmarshal([]byte(so), &xr); err != nil {
		mc.ToolError("xdrv output: %v", err)
	}
	for _, v := range xr.Violations {
		report("tags:"+strings.ReplaceAll(strings.TrimSpace(v.Header), "\n", "\\n"), v.Msg+"\n  source header: "+strings.ReplaceAll(v.Header, "\n", "\\n")+"\n  generated header: "+strings.ReplaceAll(v.Output, "\n", "\\n"), v)
	}
	// (a') end to end through the binary, for headers that select the file under {cff}
	e2eDir := filepath.Join(build, "e2e")
	os.RemoveAll(e2eDir)
	writeGoMod(e2eDir, repo)
	hdrs := xr.CffHeaders
	if !th && len(hdrs) > 600 {
		// quick: every 3rd header of the larger forms, all of the small ones
		var sel []string
		for i, h := range hdrs {
			if i%3 == 0 || !strings.HasPrefix(h, "// +build") {
				sel = append(sel, h)
			}
		}
		hdrs = sel
	}
	const perE2E = 150
	for i, h := range hdrs {
		pkg := fmt.Sprintf("e%d", i/perE2E)
		body := fmt.Sprintf("package %s\n\nimport (\n\t\"context\"\n\n\t\"go.uber.org/cff\"\n)\n\nfunc f%d(ctx context.Context) (int, error) {\n\tvar x int\n\terr := cff.Flow(ctx, cff.Results(&x), cff.Task(func() int { return %d }))\n\treturn x, err\n}\n", pkg, i, i)
		writeFile(filepath.Join(e2eDir, pkg, fmt.Sprintf("h%05d.go", i)), h+body)
	}
	npk := (len(hdrs) + perE2E - 1) / perE2E
	var wg sync.WaitGroup
	sem := make(chan struct{}, mc.Workers())
	e2eErr := make([]string, npk)
	for k := 0; k < npk; k++ {
		wg.Add(1)
		go func(k int) {
			defer wg.Done()
			sem <- struct{}{}
			defer func() { <-sem }()
			_, se, _ := run(e2eDir, goEnv, cffBin, fmt.Sprintf("./e%d", k))
			e2eErr[k] = se
		}(k)
	}
	wg.Wait()
	e2eChecked, e2eRejected := 0, 0
	sigmas := []map[string]bool{}
	for m := 0; m < 8; m++ {
		s := map[string]bool{}
		for i, t := range xTags {
			s[t] = m&(1<<i) != 0
		}
		sigmas = append(sigmas, s)
	}
	for i, h := range hdrs {
		pkg := fmt.Sprintf("e%d", i/perE2E)
		if strings.Contains(e2eErr[i/perE2E], "load packages:") {
			mc.ToolError("end-to-end header package %s does not load: %s", pkg, truncate(e2eErr[i/perE2E], 1000))
		}
		out, err := os.ReadFile(filepath.Join(e2eDir, pkg, fmt.Sprintf("h%05d_gen.go", i)))
		if err != nil {
			e2eRejected++
			continue
		}
		e2eChecked++
		oh := headerOf(out)
		for _, s := range sigmas {
			fl := map[string]bool{}
			for k, v := range s {
				fl[k] = v
			}
			fl["cff"] = !s["cff"]
			want, e1 := selectedHdr(h, fl)
			got, e2 := selectedHdr(oh, s)
			if e1 != nil {
				continue
			}
			if e2 != nil || got != want {
				report("tags-e2e:"+strings.ReplaceAll(strings.TrimSpace(h), "\n", "\\n"), fmt.Sprintf("end to end: under tags %v the generated file is selected=%v (err %v) but the source with cff flipped is selected=%v\n  source header: %q\n  generated header: %q", s, got, e2, want, h, oh), map[string]string{"header": h, "output": oh})
				break
			}
		}
	}
	// (b) preservation
	progs := staticProgs("C13", th)
	var keep []*pg.Program
	for _, p := range progs {
		if p.Raw != "" || p.F.Surround || th || strings.HasPrefix(p.Fam, "S:") || strings.HasPrefix(p.Fam, "L:") || strings.Contains(p.Fam, "PAR") {
			keep = append(keep, p)
		}
	}
	progs = keep
	compared, spansTotal := 0, 0
	modes := []string{"base", "source-map"}
	for _, mode := range modes {
		g := &genSet{dir: filepath.Join(build, "gen-"+mode), mode: mode, progs: progs}
		g.write(repo, mc.VerifDir())
		g.runCff(cffBin, mc.Workers())
		for _, p := range progs {
			if !g.accepted[p.ID] {
				continue
			}
			msg, n := comparePreserved(g.srcFile[p.ID], g.genFile[p.ID])
			compared++
			spansTotal += n
			if strings.HasPrefix(msg, "tool: ") {
				mc.ToolError("C16(b) %s: %s", p.ID, msg)
			}
			if msg != "" {
				report(progKey(p)+" mode="+mode+" preserve", msg, p)
			}
		}
	}
	// (c) file sets
	runs := fileSetRuns(modes)
	execFileSets(cffBin, build, repo, runs)
	for _, r := range runs {
		for _, pr := range r.Problems {
			report("fileset:"+r.Mode+":"+r.Desc, pr+"   (invocation: cff "+strings.Join(r.Args, " ")+")", map[string]any{"args": r.Args, "mode": r.Mode})
		}
	}
	wall := time.Since(rep.Start).Seconds()
	var samples []any
	for _, s := range xr.Samples {
		samples = append(samples, map[string]string{"kind": "header", "source": s.Header, "generated": s.Output})
	}
	if len(runs) > 3 {
		samples = append(samples, map[string]any{"kind": "file-set", "args": runs[len(runs)/2].Args, "changed": runs[len(runs)/2].Changed})
	}
	evals := xr.Evals + e2eChecked*8 + compared + len(runs)
	ev := &mc.Evidence{PropertyID: "C16", Tier: tier, Seed: mc.Seed(), Level: "model_checking", WallS: wall, Violations: rep.Violations,
		Coverage: map[string]any{
			"states":                        xr.Headers + len(progs) + len(runs),
			"transitions":                   evals,
			"traces_validated_against_impl": evals,
			"evaluations":                   evals,
			"distinct_nontrivial":           xr.Distinct,
			"exhaustive":                    true,
			"samples":                       samples,
			"headers":                       xr.Headers,
			"headers_by_form":               xr.ByForm,
			"header_tag_evaluations":        xr.Evals,
			"header_selection_split":        xr.Selected,
			"distinct_generated_headers":    xr.Distinct,
			"e2e_headers_through_binary":    e2eChecked,
			"e2e_headers_rejected_by_cff":   e2eRejected,
			"preservation_comparisons":      compared,
			"directive_spans_masked":        spansTotal,
			"file_set_invocations":          len(runs),
			"known_findings_hit":            rep.KnownHits,
			"rule":                          "states = build-constraint headers + programs + file-set invocations enumerated; (a) all //go:build expressions of depth<=2 over {cff,a,b} (thorough: plus depth-2 x depth-1 combinations), all // +build lines with <=2 groups of <=2 terms, 2- and 3-line forms, both syntaxes together, headers split by comments: each through the real writeInvertedCffTag, go/build.MatchFile decides selection for all 8 tag assignments, distinct = distinct generated headers; headers selecting the file under {cff} also go end to end through the cff binary; (b) source vs output of every accepted family program with directive spans masked, declarations re-printed and compared, imports superset; (c) every non-empty subset of {a.go,b.v2.go,c.go,d_test.go} x default/explicit output per file, plus whole package, x {base,source-map}, tree hashed before and after in a fresh copy, TMPDIR watched",
		},
		Assumptions: []string{"go/build.Context.MatchFile is the judge of file selection", "tags other than cff,a,b and GOOS/GOARCH-like tags are not enumerated", "comments are not compared in (b) (the property speaks of declarations, statements and expressions)"}}
	if err := mc.WriteEvidence(ev); err != nil {
		mc.ToolError("evidence: %v", err)
	}
	fmt.Printf("C16 %s: %d headers (%d tag evaluations, %d distinct outputs), %d end-to-end headers (%d not accepted by cff), %d source/output comparisons (%d directive spans), %d file-set invocations, %.1fs\n",
		tier, xr.Headers, xr.Evals, xr.Distinct, e2eChecked, e2eRejected, compared, spansTotal, len(runs), wall)
	os.Exit(rep.ExitCode())
}
