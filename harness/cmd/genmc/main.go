// Command genmc model-checks cff-generated code and the cff tool itself over
// bounded-exhaustive families of abstract programs (DESIGN.md §4):
//
//	genmc -prop C02 -tier quick -build <dir> -overlay <overlay.json> -repo /repo
//
// It renders the family, runs the cff binary built from the working tree,
// compiles the output against the rewritten scheduler and the vs shim, then
// explores every (program, scenario) over all interleavings and judges each
// execution against the reference semantics.
package main

import (
	"encoding/json"
	"flag"
	"fmt"
	"os"
	"path/filepath"
	"sort"
	"strings"
	"time"

	"verif/harness/genrt"
	"verif/harness/mc"
	pg "verif/harness/progenum"
)

type resultRec struct {
	Scenario   string            `json:"scenario"`
	Stats      statsRec          `json:"stats"`
	Visibles   int               `json:"visibles"`
	Outcomes   []string          `json:"outcomes"`
	Violations []genrt.Violation `json:"violations"`
	ToolErr    string            `json:"tool_err"`
	WallMs     int64             `json:"wall_ms"`
	Sample     *genrt.Violation  `json:"sample"`
	MaxSpawned int               `json:"max_spawned"`
	Calls      int               `json:"calls"`
}

type statsRec struct {
	Execs, Complete, Blocked, Nodes, Steps, Edges int64
	MaxDepth                                      int
	Exhaustive                                    bool
	CappedBy                                      string
}

func progKey(p *pg.Program) string {
	q := *p
	q.ID = ""
	return "gen:" + p.Fam + ":" + q.Key()
}

func main() {
	prop := flag.String("prop", "", "property id")
	tier := flag.String("tier", "quick", "quick|thorough")
	build := flag.String("build", "", "scratch build directory")
	overlay := flag.String("overlay", "", "overlay with the rewritten scheduler and the vs shim")
	repo := flag.String("repo", "/repo", "cff repository")
	cffBin := flag.String("cff", "", "cff binary built from the working tree")
	replay := flag.String("replay", "", "replay file")
	deadline := flag.Int("scenario-deadline", 0, "per-scenario deadline (s)")
	only := flag.String("only", "", "substring filter on program family/key")
	listOnly := flag.Bool("list", false, "list programs and scenario counts")
	flag.Parse()
	if *replay != "" {
		replayMain(*replay, *build, *overlay, *repo, *cffBin)
		return
	}
	if *prop == "C16" {
		c16Main(*tier, *build, *repo, *cffBin)
		return
	}
	if *prop == "C17" {
		c17Main(*tier, *build, *repo, *cffBin)
		return
	}
	if isStatic(*prop) {
		staticMain(*prop, *tier, *build, *overlay, *repo, *cffBin)
		return
	}
	pl, err := planFor(*prop, *tier)
	if err != nil {
		mc.ToolError("%v", err)
	}
	if *only != "" {
		var f []*pg.Program
		for _, p := range pl.progs {
			if strings.Contains(progKey(p), *only) {
				f = append(f, p)
			}
		}
		pl.progs = f
	}
	rep := mc.NewReporter(*prop)
	dl := *deadline
	if dl == 0 {
		dl = 90
		if *tier == "thorough" {
			dl = 900
		}
	}
	var tasks []genrt.Task
	var taskProg []*pg.Program
	maxK2 := 3
	if *tier == "thorough" {
		maxK2 = 4
	}
	for _, p := range pl.progs {
		for _, sc := range sizeScenarios(p, pl.scen(p), maxK2) {
			tasks = append(tasks, genrt.Task{Sc: sc, DeadlineS: dl})
			taskProg = append(taskProg, p)
		}
	}
	if *listOnly {
		for _, p := range pl.progs {
			fmt.Printf("%s %d scenarios %s\n", p.ID, len(sizeScenarios(p, pl.scen(p), maxK2)), progKey(p))
		}
		fmt.Printf("%d programs, %d scenarios\n", len(pl.progs), len(tasks))
		return
	}
	pr := execPlan(*prop, *tier, pl, pl.modes[0], "", tasks, taskProg, *build, *overlay, *repo, *cffBin, rep)
	tot, exhaustive, capped, visibles, samples := pr.tot, pr.exhaustive, pr.capped, pr.visibles, pr.samples
	rejected, racesConfirmed := pr.rejected, pr.racesConfirmed
	results, runProg := pr.results, pr.runProg
	seed := mc.Seed()
	if os.Getenv("VERIF_SLOWEST") != "" {
		idx := make([]int, len(results))
		for i := range idx {
			idx[i] = i
		}
		sort.Slice(idx, func(a, b int) bool { return results[idx[a]].WallMs > results[idx[b]].WallMs })
		for k := 0; k < 15 && k < len(idx); k++ {
			r := results[idx[k]]
			fmt.Printf("  slow: %6dms %8d execs %s [%s]\n", r.WallMs, r.Stats.Execs, r.Scenario, progKey(runProg[idx[k]]))
		}
	}
	wall := time.Since(rep.Start).Seconds()
	ev := &mc.Evidence{PropertyID: *prop, Tier: *tier, Seed: seed, Level: "model_checking", WallS: wall, Violations: rep.Violations,
		Coverage: map[string]any{
			"states":                        tot.Nodes,
			"transitions":                   tot.Edges,
			"traces_validated_against_impl": tot.Complete,
			"samples":                       samples,
			"exhaustive":                    exhaustive,
			"programs":                      len(pl.progs),
			"programs_rejected_by_cff":      rejected,
			"programs_not_compiling":        pr.broken,
			"scenarios":                     pr.scenarios,
			"executions":                    tot.Execs,
			"sleep_blocked_executions":      tot.Blocked,
			"steps_executed":                tot.Steps,
			"max_depth":                     tot.MaxDepth,
			"distinct_visible_traces":       visibles,
			"capped_scenarios":              capped,
			"preemption_bounded_scenarios":  pr.boundedN,
			"preemption_bounded_executions": pr.boundedExecs,
			"preemption_bounded_capped":     pr.boundedCapped,
			"preemption_bounded_note":       "scenarios marked 'supplement' are too large for all interleavings with more than one worker. They are explored over all interleavings with one worker (that run is what the exhaustive flag covers) and, as a supplement, with their own N depth-first over the schedules with fewer than B preemptions, stopping after 12000 schedules (preemption_bounded_capped counts the ones stopped). The supplement is never counted as exhaustive",
			"known_findings_hit":            rep.KnownHits,
			"race_detector":                 pr.race,
			"race_reports_confirmed":        racesConfirmed,
			"race_reports_not_reproduced":   pr.racesUnconfirmed,
			"rule":                          "every program of the family is rendered to Go, compiled by the cff binary built from the working tree, linked against the rewritten scheduler, and every (program, outcome vector, N) scenario is explored over all interleavings (sleep-set DFS, unbounded); each execution is compared with the reference interpreter of the directive semantics",
		},
		Assumptions: []string{
			"the vs shim models Go channels/select/context/ticker faithfully (litmus suite)",
			"user functions are the probe library's (deterministic outputs, injected outcomes)",
			"atomics in generated code (ran flags) are not scheduling points",
		}}
	if len(samples) == 0 {
		ev.Coverage["samples"] = []any{map[string]any{"note": "no scenario was run"}}
	}
	if err := mc.WriteEvidence(ev); err != nil {
		mc.ToolError("evidence: %v", err)
	}
	fmt.Printf("%s %s: %d programs (%d rejected, %d not compiling), %d scenarios, %d executions (%d complete), %d states, %d transitions, exhaustive=%v, %.1fs\n",
		*prop, *tier, len(pl.progs), rejected, pr.broken, pr.scenarios, tot.Execs, tot.Complete, tot.Nodes, tot.Edges, exhaustive, wall)
	for _, c := range capped {
		fmt.Println("  capped:", c)
	}
	os.Exit(rep.ExitCode())
}

// setRaceEnv makes the driver's worker processes write race reports to
// per-process log files that the workers watch after every execution.
func setRaceEnv(build string) {
	dir := filepath.Join(build, "racelog")
	os.RemoveAll(dir)
	os.MkdirAll(dir, 0o755)
	pfx := filepath.Join(dir, "race")
	os.Setenv("VERIF_RACE_LOG", pfx)
	os.Setenv("GORACE", "log_path="+pfx+" atexit_sleep_ms=0 halt_on_error=0 exitcode=0")
}

// confirmRace replays one schedule in a fresh driver process and reports
// whether the race detector fires again.
func confirmRace(build string, sc genrt.Scenario, decisions []int) (string, bool) {
	t := genrt.Task{Sc: sc, Replay: decisions}
	if t.Replay == nil {
		t.Replay = []int{}
	}
	// The detector does not report every racing pair on every run of the same
	// schedule (measured: between 10% and 70% per run, depending on the pair,
	// once all channel annotations are on - DESIGN.md section 3.6), so the
	// schedule is replayed in many fresh processes: rounds of 16 identical tasks
	// on 16 fresh workers, up to 6 rounds. A report is never produced for
	// ordered accesses, so one reproduction confirms the finding.
	tf, rf := filepath.Join(build, "race-tasks.json"), filepath.Join(build, "race-results.json")
	var batch []genrt.Task
	for i := 0; i < 16; i++ {
		batch = append(batch, t)
	}
	tb, _ := json.Marshal(batch)
	os.WriteFile(tf, tb, 0o644)
	for round := 0; round < 6; round++ {
		os.Remove(rf)
		so, se, code := runCmd(build, filepath.Join(build, "bin", "driver"), "-tasks", tf, "-out", rf)
		if code != 0 {
			return fmt.Sprintf("driver failed: %s %s", truncate(so, 300), truncate(se, 300)), false
		}
		rb, _ := os.ReadFile(rf)
		var results []resultRec
		json.Unmarshal(rb, &results)
		if len(results) == 0 {
			return "no result", false
		}
		for _, r := range results {
			for _, v := range r.Violations {
				if v.Prop == "C12" {
					return "", true
				}
			}
		}
	}
	return "no race report in 96 fresh replays", false
}

// planResult is what one execution of a plan (one generation mode) yields.
type planResult struct {
	tot              statsRec
	exhaustive       bool
	capped           []string
	boundedN         int // scenarios explored completely below a preemption bound (too large for all interleavings)
	boundedExecs     int64
	boundedCapped    int
	visibles         int
	samples          []any
	outcomes         map[string][]string // "program key :: scenario" -> distinct observable outcomes over all schedules
	rejected         int
	broken           int
	scenarios        int
	racesConfirmed   int
	racesUnconfirmed int
	race             bool
	results          []resultRec
	runProg          []*pg.Program
}

// execPlan generates the programs of pl in one mode, builds the driver,
// explores every scenario and reports violations through rep.
func execPlan(prop, tier string, pl *plan, gm genMode, sub string, tasks []genrt.Task, taskProg []*pg.Program, build, overlay, repo, cffBin string, rep *mc.Reporter) *planResult {
	pr := &planResult{exhaustive: true, outcomes: map[string][]string{}}
	g := &genSet{dir: filepath.Join(build, "gen"+sub), mode: gm.mode, autoInst: gm.autoInst, progs: pl.progs, race: prop == "C12"}
	if g.race {
		setRaceEnv(build)
	}
	g.write(repo, mc.VerifDir())
	g.runCff(cffBin, mc.Workers())
	// every program of a run-time family is well-formed: the tool must accept it
	rejected := 0
	for _, p := range pl.progs {
		if !g.accepted[p.ID] {
			rejected++
			out := g.outOf(p.ID)
			scj, _ := json.Marshal(p)
			rep.Report(&mc.Replay{Property: "C14", Engine: "genmc", Key: progKey(p), Scenario: scj,
				Message: fmt.Sprintf("cff rejected (or crashed on) a well-formed program: %s", firstLines(grepFile(out.stderr, filepath.Base(g.srcFile[p.ID])), 3))})
		}
	}
	ov, err := g.mapRangeOverlay(overlay, build)
	if err != nil {
		mc.ToolError("%v", err)
	}
	if err := g.buildDriver(ov, filepath.Join(build, "bin", "driver"+sub)); err != nil {
		mc.ToolError("%v", err)
	}
	for id, msg := range g.broken {
		for _, p := range pl.progs {
			if p.ID == id {
				scj, _ := json.Marshal(p)
				rep.Report(&mc.Replay{Property: "C13", Engine: "genmc", Key: progKey(p), Scenario: scj,
					Message: "cff exited successfully but its output does not compile: " + msg})
			}
		}
	}
	// run
	var run []genrt.Task
	var runProg []*pg.Program
	for i, t := range tasks {
		p := taskProg[i]
		if !g.accepted[p.ID] || g.broken[p.ID] != "" {
			continue
		}
		run = append(run, t)
		runProg = append(runProg, p)
	}
	_ = mc.Seed()
	tb, _ := json.Marshal(run)
	tf := filepath.Join(build, "tasks"+sub+".json")
	rf := filepath.Join(build, "results"+sub+".json")
	os.WriteFile(tf, tb, 0o644)
	os.Remove(rf)
	so, se, code := runCmd(build, filepath.Join(build, "bin", "driver"+sub), "-tasks", tf, "-out", rf)
	if code != 0 {
		mc.ToolError("driver failed (%d): %s %s", code, truncate(so, 2000), truncate(se, 2000))
	}
	rb, err := os.ReadFile(rf)
	if err != nil {
		mc.ToolError("driver wrote no results: %v", err)
	}
	var results []resultRec
	if err := json.Unmarshal(rb, &results); err != nil {
		mc.ToolError("bad driver results: %v", err)
	}
	var tot statsRec
	racesConfirmed, racesUnconfirmed := 0, 0
	exhaustive := true
	var capped []string
	boundedN, boundedExecs, boundedCapped := 0, int64(0), 0
	visibles := 0
	var samples []any
	outcomesByProg := map[string]map[string]bool{}
	for i, r := range results {
		p := runProg[i]
		if r.ToolErr != "" {
			mc.ToolError("%s: %s", r.Scenario, r.ToolErr)
		}
		tot.Execs += r.Stats.Execs
		tot.Complete += r.Stats.Complete
		tot.Blocked += r.Stats.Blocked
		tot.Nodes += r.Stats.Nodes
		tot.Edges += r.Stats.Edges
		tot.Steps += r.Stats.Steps
		if r.Stats.MaxDepth > tot.MaxDepth {
			tot.MaxDepth = r.Stats.MaxDepth
		}
		visibles += r.Visibles
		if strings.Contains(r.Scenario, " supplement") {
			// a several-worker supplement of a scenario that is explored over all interleavings with one worker
			boundedN++
			boundedExecs += r.Stats.Execs
			if !r.Stats.Exhaustive {
				boundedCapped++
			}
		} else if !r.Stats.Exhaustive && len(r.Violations) == 0 {
			exhaustive = false
			capped = append(capped, fmt.Sprintf("%s [%s] (%s after %d executions)", r.Scenario, progKey(p), r.Stats.CappedBy, r.Stats.Execs))
		}
		if len(samples) < 4 && r.Sample != nil && (i%211 == 0) {
			samples = append(samples, map[string]any{"program": progKey(p), "scenario": r.Scenario, "decisions": compact(r.Sample.Decisions),
				"visible_trace": r.Sample.Visible, "executions": r.Stats.Execs, "distinct_outcomes": r.Outcomes})
		}
		if outcomesByProg[r.Scenario] == nil {
			outcomesByProg[r.Scenario] = map[string]bool{}
		}
		for _, o := range r.Outcomes {
			outcomesByProg[r.Scenario][o] = true
		}
		for vi := range r.Violations {
			v := &r.Violations[vi]
			if v.Race {
				// confirm in a fresh process (the detector reports a pair of stacks once per process)
				if msg, ok := confirmRace(build, run[i].Sc, v.Decisions); !ok {
					if !strings.HasPrefix(msg, "no race report") {
						mc.ToolError("confirming a race report for %s [%s] failed: %s", r.Scenario, progKey(p), msg)
					}
					// The detector's report during exploration stands (it never reports ordered
					// accesses); what failed is only the attempt to see it again.
					v.Msg += "\n  NOTE: produced during exploration, but it did not reappear in 96 fresh replays of this schedule (the detector misses some racing pairs in most runs)"
					racesUnconfirmed++
				} else {
					racesConfirmed++
				}
			}
			scj, _ := json.Marshal(map[string]any{"program": p, "scenario": run[i].Sc})
			rep.Report(&mc.Replay{Property: v.Prop, Engine: "genmc", Key: progKey(p) + " :: " + strings.TrimPrefix(r.Scenario, p.ID+" "), Message: v.Msg,
				Scenario: scj, Decisions: v.Decisions, Trace: v.Trace, Visible: v.Visible,
				Note: "replay: /verif/check " + prop + " --replay <this file> (re-generates the program with the cff binary of the working tree)"})
		}
		// C02: a deterministic program has one observable outcome over all schedules
		if prop == "C02" && len(r.Outcomes) > 1 && len(r.Violations) == 0 {
			scj, _ := json.Marshal(map[string]any{"program": p, "scenario": run[i].Sc})
			rep.Report(&mc.Replay{Property: "C02", Engine: "genmc", Key: progKey(p) + " :: outcome-set", Scenario: scj,
				Message: fmt.Sprintf("the observable outcome depends on the schedule: %v", r.Outcomes)})
		}
	}
	pr.tot, pr.exhaustive, pr.capped, pr.visibles, pr.samples = tot, exhaustive, capped, visibles, samples
	pr.boundedN, pr.boundedExecs, pr.boundedCapped = boundedN, boundedExecs, boundedCapped
	pr.rejected, pr.broken, pr.scenarios, pr.racesConfirmed, pr.race = rejected, len(g.broken), len(run), racesConfirmed, g.race
	pr.racesUnconfirmed = racesUnconfirmed
	pr.results, pr.runProg = results, runProg
	for i, r := range results {
		pr.outcomes[progKey(runProg[i])+" :: "+strings.TrimPrefix(r.Scenario, runProg[i].ID+" ")] = r.Outcomes
	}
	return pr
}

func compact(d []int) string {
	var b strings.Builder
	for i, x := range d {
		if i > 0 {
			b.WriteByte(' ')
		}
		fmt.Fprint(&b, x)
	}
	return b.String()
}

func runCmd(dir, name string, args ...string) (string, string, int) {
	return run(dir, goEnv, name, args...)
}

func grepFile(s, name string) string {
	var o []string
	for _, l := range strings.Split(s, "\n") {
		if strings.Contains(l, name) || strings.Contains(l, "panic") {
			o = append(o, l)
		}
	}
	if len(o) == 0 {
		return truncate(s, 300)
	}
	return strings.Join(o, "\n")
}

func firstLines(s string, n int) string {
	ls := strings.Split(s, "\n")
	if len(ls) > n {
		ls = ls[:n]
	}
	return strings.Join(ls, " | ")
}

// replayMain re-generates the single program of a replay file and re-executes
// the recorded schedule.
func replayMain(path, build, overlay, repo, cffBin string) {
	rp, err := mc.ReadReplay(path)
	if err != nil {
		mc.ToolError("replay: %v", err)
	}
	var in struct {
		Program  *pg.Program    `json:"program"`
		Scenario genrt.Scenario `json:"scenario"`
	}
	if err := json.Unmarshal(rp.Scenario, &in); err != nil || in.Program == nil {
		mc.ToolError("replay: this artefact has no schedule to replay (static finding): %s", rp.Message)
	}
	g := &genSet{dir: filepath.Join(build, "gen"), mode: "base", progs: []*pg.Program{in.Program}, race: rp.Property == "C12"}
	if g.race {
		setRaceEnv(build)
	}
	g.write(repo, mc.VerifDir())
	g.runCff(cffBin, 1)
	ov, err := g.mapRangeOverlay(overlay, build)
	if err != nil {
		mc.ToolError("%v", err)
	}
	if err := g.buildDriver(ov, filepath.Join(build, "bin", "driver")); err != nil {
		mc.ToolError("%v", err)
	}
	t := []genrt.Task{{Sc: in.Scenario, Replay: rp.Decisions}}
	if rp.Visible == "(whole exploration)" {
		// a finding about all schedules of the scenario: explore it again
		t[0].Replay = nil
		t[0].DeadlineS = 600
	} else if t[0].Replay == nil {
		t[0].Replay = []int{}
	}
	tb, _ := json.Marshal(t)
	tf, rf := filepath.Join(build, "tasks.json"), filepath.Join(build, "results.json")
	os.WriteFile(tf, tb, 0o644)
	so, se, code := runCmd(build, filepath.Join(build, "bin", "driver"), "-tasks", tf, "-out", rf)
	if code != 0 {
		mc.ToolError("driver failed: %s %s", so, se)
	}
	rb, _ := os.ReadFile(rf)
	var results []resultRec
	json.Unmarshal(rb, &results)
	if len(results) != 1 {
		mc.ToolError("replay: no result")
	}
	r := results[0]
	if r.ToolErr != "" {
		mc.ToolError("replay: %s", r.ToolErr)
	}
	fmt.Println("program:", progKey(in.Program))
	fmt.Println("scenario:", r.Scenario)
	if r.Sample != nil {
		for i, s := range r.Sample.Trace {
			fmt.Printf("  %3d %s\n", i, s)
		}
		fmt.Println("visible:", r.Sample.Visible)
	}
	hit := false
	var props []string
	for _, v := range r.Violations {
		fmt.Printf("finding: %s: %s\n", v.Prop, v.Msg)
		props = append(props, v.Prop)
		if v.Prop == rp.Property {
			hit = true
		}
	}
	sort.Strings(props)
	if hit {
		fmt.Printf("VIOLATION property=%s replay=%s\n", rp.Property, path)
		os.Exit(1)
	}
	fmt.Println("not reproduced on this tree")
}
