package main

import (
	"fmt"
	"strings"

	"verif/harness/genrt"
	"verif/harness/probe"
	pg "verif/harness/progenum"
)

// plan of one property check: programs, run-time scenarios, generator modes.
type plan struct {
	progs  []*pg.Program
	scen   func(p *pg.Program) []genrt.Scenario
	static []string // static oracles to apply: "C13","C14","C16b","C20a"
	modes  []genMode
}

type genMode struct {
	mode     string
	autoInst bool
}

var baseOnly = []genMode{{"base", false}}

func flowProg(f *pg.Flow, fam string) *pg.Program    { return &pg.Program{Flow: f, Fam: fam} }
func parProg(p *pg.Parallel, fam string) *pg.Program { return &pg.Program{Par: p, Fam: fam} }

func exprConc(f *pg.Flow) *pg.Flow { g := f.Clone(); g.Conc = "expr"; return g }

// subsetsOf returns all non-empty subsets of ids with at most max members.
func subsetsOf(ids []string, max int) [][]string {
	var res [][]string
	for m := 1; m < 1<<len(ids); m++ {
		var s []string
		for b := range ids {
			if m&(1<<b) != 0 {
				s = append(s, ids[b])
			}
		}
		if max <= 0 || len(s) <= max {
			res = append(res, s)
		}
	}
	return res
}

// failable returns the ids of the functions of p that can return an error.
func failable(p *pg.Program) []string {
	var ids []string
	if p.Flow != nil {
		for i, t := range p.Flow.Tasks {
			if t.Err {
				ids = append(ids, pg.TaskID(p.ID, i))
			}
		}
		return ids
	}
	for k, it := range p.Par.Items {
		switch it.Kind {
		case "task":
			if it.Err {
				ids = append(ids, pg.ItemID(p.ID, k))
			}
		case "tasks":
			if it.Err {
				for j := 0; j < it.Count; j++ {
					ids = append(ids, pg.SubID(p.ID, k, j))
				}
			}
		case "slice":
			if it.Err {
				// elements of the default collection
				if it.Idx {
					ids = append(ids, pg.ItemID(p.ID, k)+"#0")
					if !small(p) {
						ids = append(ids, pg.ItemID(p.ID, k)+"#1")
					}
				} else {
					ids = append(ids, pg.ItemID(p.ID, k)+"#7")
					if !small(p) {
						ids = append(ids, pg.ItemID(p.ID, k)+"#8")
					}
				}
			}
		case "map":
			if it.Err {
				ids = append(ids, pg.ItemID(p.ID, k)+"#1")
			}
		}
		if it.End != nil && it.End.Err {
			ids = append(ids, pg.EndID(p.ID, k))
		}
	}
	return ids
}

// panickable returns every user function id of p (anything may panic).
func panickable(p *pg.Program) []string {
	var ids []string
	if p.Flow != nil {
		for i, t := range p.Flow.Tasks {
			ids = append(ids, pg.TaskID(p.ID, i))
			if t.Pred != nil {
				ids = append(ids, pg.PredID(p.ID, i))
			}
		}
		return ids
	}
	for k, it := range p.Par.Items {
		switch it.Kind {
		case "task":
			ids = append(ids, pg.ItemID(p.ID, k))
		case "tasks":
			ids = append(ids, pg.SubID(p.ID, k, 0))
		case "slice":
			switch {
			case it.Idx && small(p):
				ids = append(ids, pg.ItemID(p.ID, k)+"#0")
			case it.Idx:
				ids = append(ids, pg.ItemID(p.ID, k)+"#1")
			case small(p):
				ids = append(ids, pg.ItemID(p.ID, k)+"#7")
			default:
				ids = append(ids, pg.ItemID(p.ID, k)+"#8")
			}
		case "map":
			if small(p) {
				ids = append(ids, pg.ItemID(p.ID, k)+"#1")
			} else {
				ids = append(ids, pg.ItemID(p.ID, k)+"#2")
			}
		}
		if it.End != nil {
			ids = append(ids, pg.EndID(p.ID, k))
		}
	}
	return ids
}

// small: programs with several items get one-element collections so that the
// total number of jobs stays within exhaustive reach
func small(p *pg.Program) bool {
	return p.Par != nil && (len(p.Par.Items) >= 2 || p.Par.Conc == "")
}

func defaultColls(p *pg.Program, sc *genrt.Scenario) {
	if p.Par == nil {
		return
	}
	for _, it := range p.Par.Items {
		switch it.Kind {
		case "slice":
			for len(sc.Colls) <= it.Coll {
				if small(p) {
					sc.Colls = append(sc.Colls, []uint64{7})
				} else {
					sc.Colls = append(sc.Colls, []uint64{7, 8})
				}
			}
		case "map":
			for len(sc.Maps) <= it.Coll {
				if small(p) {
					sc.Maps = append(sc.Maps, map[string]uint64{"1": 11})
				} else {
					sc.Maps = append(sc.Maps, map[string]uint64{"1": 11, "2": 12})
				}
			}
		}
	}
}

// jobCount is the number of scheduler jobs the scenario submits.
func jobCount(p *pg.Program, sc *genrt.Scenario) int {
	k := 0
	if p.Flow != nil {
		for _, t := range p.Flow.Tasks {
			k++
			if t.Pred != nil {
				k++
			}
		}
		return k
	}
	for _, it := range p.Par.Items {
		switch it.Kind {
		case "task":
			k++
		case "tasks":
			k += it.Count
		case "slice":
			if it.Coll < len(sc.Colls) {
				k += len(sc.Colls[it.Coll])
			}
		case "map":
			if it.Coll < len(sc.Maps) {
				k += len(sc.Maps[it.Coll])
			}
		}
		if it.End != nil {
			k++
		}
	}
	return k
}

// sizeScenarios keeps the exploration exhaustive: scenarios with more than
// maxK2 jobs run with one worker only (duplicates dropped).
func sizeScenarios(p *pg.Program, scs []genrt.Scenario, maxK2 int) []genrt.Scenario {
	seen := map[string]bool{}
	var out []genrt.Scenario
	for _, sc := range scs {
		k := jobCount(p, &sc)
		if sc.Instances > 1 {
			k *= 2
		}
		over := false
		for _, k := range sc.Dec {
			if k == probe.OverBar {
				over = true
			}
		}
		if sc.PreemptBound > 0 || over {
			// bounded search (sized by the bound), or bodies that block at once
			out = append(out, sc)
			continue
		}
		if k > maxK2 && (sc.N == 0 || sc.N > 1) {
			if sc.N == 0 && !((p.Flow != nil && p.Flow.Conc == "expr") || (p.Par != nil && p.Par.Conc == "expr")) {
				if k > maxK2+1 {
					continue // fixed concurrency in the program text: too large to explore, dropped
				}
			} else {
				// too large for all interleavings with several workers: one worker over all interleavings,
				// and the same scenario with its own N over every schedule with at most one preemption
				// (only for scenarios in which nothing fails: that is where a missing edge or a lost value shows)
				quiet := true
				for _, d := range sc.Dec {
					if d != probe.True && d != probe.False {
						quiet = false
					}
				}
				if quiet && sc.Cancel == "" && sc.Instances <= 1 {
					b := sc
					b.PreemptBound = 2
					b.MaxExecs = 12000
					b.Note = "supplement"
					if key := b.String(); !seen[key] {
						seen[key] = true
						out = append(out, b)
					}
				}
				sc.N = 1
			}
		}
		key := sc.String()
		if seen[key] {
			continue
		}
		seen[key] = true
		out = append(out, sc)
	}
	return out
}

func base(p *pg.Program, n int) genrt.Scenario {
	sc := genrt.Scenario{Prog: p.ID, N: n, Dec: map[string]string{}}
	defaultColls(p, &sc)
	return sc
}

func withDec(sc genrt.Scenario, ids []string, kind string) genrt.Scenario {
	d := map[string]string{}
	for k, v := range sc.Dec {
		d[k] = v
	}
	for _, id := range ids {
		d[id] = kind
	}
	sc.Dec = d
	return sc
}

func preds(p *pg.Program) []string {
	var ids []string
	if p.Flow != nil {
		for i, t := range p.Flow.Tasks {
			if t.Pred != nil {
				ids = append(ids, pg.PredID(p.ID, i))
			}
		}
	}
	return ids
}

// predCombos: every assignment of true/false to the predicates of p.
func predCombos(p *pg.Program, sc genrt.Scenario) []genrt.Scenario {
	ps := preds(p)
	res := []genrt.Scenario{sc}
	for _, id := range ps {
		var next []genrt.Scenario
		for _, s := range res {
			next = append(next, withDec(s, []string{id}, probe.True), withDec(s, []string{id}, probe.False))
		}
		res = next
	}
	return res
}

// withAlone appends, for every flow of ps that has a predicate (up to max of them), a copy that is the only
// file with directives in its package: the generator numbers tasks per package and predicates per flow, so
// the two number spaces only meet in the first flows of a package.
func withAlone(ps []*pg.Program, max int) []*pg.Program {
	out := ps
	seen := map[string]bool{}
	n := 0
	for _, p := range ps {
		if p.Flow == nil || n >= max {
			continue
		}
		has := false
		for _, t := range p.Flow.Tasks {
			if t.Pred != nil {
				has = true
			}
		}
		// one copy per structure (listing orders of the same flow share it)
		q := *p
		q.Flow = p.Flow.Clone()
		q.Flow.Order = nil
		k := q.Key()
		if !has || seen[k] {
			continue
		}
		seen[k] = true
		q.Alone = true
		q.Fam = p.Fam + ":alone"
		out = append(out, &q)
		n++
	}
	return out
}

func numIDs(progs []*pg.Program) []*pg.Program {
	for i, p := range progs {
		p.ID = fmt.Sprintf("Q%04d", i)
	}
	return progs
}

// coreFlows: well-formed flows used by several run-time properties.
func coreFlows(th bool) []*pg.Program {
	var ps []*pg.Program
	seen := map[string]bool{}
	add := func(f *pg.Flow, fam string) {
		if ok, _ := f.WellFormed(); !ok {
			return
		}
		f = exprConc(f)
		p := flowProg(f, fam)
		k := p.Key()
		if seen[k] {
			return
		}
		seen[k] = true
		ps = append(ps, p)
	}
	for nt := 1; nt <= 2; nt++ {
		for _, f := range pg.EnumFlows(nt, 2, false) {
			g := f.Clone()
			for i := range g.Tasks {
				g.Tasks[i].Err = true
			}
			add(g, "G2")
		}
	}
	if th {
		for _, f := range pg.EnumFlows(3, 2, false) {
			g := f.Clone()
			for i := range g.Tasks {
				g.Tasks[i].Err = true
			}
			add(g, "G2")
		}
		for _, f := range pg.EnumUnary3(3) {
			add(f, "G3")
		}
	}
	for _, n := range pg.ShapeNames() {
		add(pg.Shape(n), "shape:"+n)
	}
	return ps
}

func planFor(prop, tier string) (*plan, error) {
	th := tier == "thorough"
	pl := &plan{modes: baseOnly}
	ns := []int{1, 2}
	switch prop {
	case "C01":
		// dependency edges of generated code: flows with predicates in every
		// task listing order, multi-result providers, End hooks
		var ps []*pg.Program
		for _, n := range []string{"chain2", "fork", "join", "multi", "dup3", "diamond"} {
			if n == "diamond" && !th {
				continue
			}
			f := exprConc(pg.Shape(n))
			for _, o := range pg.TaskOrders(f) {
				g := f.Clone()
				g.Order = o
				ps = append(ps, flowProg(g, "LT:"+n))
			}
		}
		for _, n := range []string{"chain2", "fork"} {
			for _, f := range pg.WithPredFallback(pg.Shape(n), []string{"none", "shared", "own", "upstream"}, 2) {
				if hasFallback(f) {
					continue
				}
				g := exprConc(f)
				for _, o := range pg.TaskOrders(g) {
					h := g.Clone()
					h.Order = o
					ps = append(ps, flowProg(h, "PF-LT:"+n))
				}
			}
		}
		if th {
			for _, f := range pg.WithPredFallback(pg.Shape("join"), []string{"shared", "upstream"}, 1) {
				if hasFallback(f) {
					continue
				}
				g := exprConc(f)
				for _, o := range pg.TaskOrders(g) {
					h := g.Clone()
					h.Order = o
					ps = append(ps, flowProg(h, "PF-LT:join"))
				}
			}
		}
		// tasks without inputs behind a predicate (the predicate is their only dependency); a predicate on the
		// last task of a longer chain (its number in the flow equals the number of an earlier task)
		for _, n := range []string{"source", "join", "indep3", "chain3"} {
			for _, f := range pg.WithPredFallback(pg.Shape(n), []string{"none", "shared", "upstream"}, 1) {
				if hasFallback(f) {
					continue
				}
				ps = append(ps, flowProg(exprConc(f), "PF:"+n))
			}
		}
		// the dependency edge must not depend on how the value type is spelled
		for _, sp := range []string{pg.SpPtr, pg.SpBasic, pg.SpSlice, pg.SpMap, pg.SpGeneric, pg.SpExt, pg.SpAnon, pg.SpArray, pg.SpFunc, pg.SpIface} {
			for _, n := range []string{"chain2", "join"} {
				f := exprConc(pg.Shape(n))
				for i := range f.Types {
					f.Types[i] = sp
				}
				ps = append(ps, flowProg(f, "S:types="+sp))
			}
		}
		for _, par := range pg.Pars(2, false) {
			if par.HasEnd() {
				q := par.Clone()
				q.Conc = "expr"
				ps = append(ps, parProg(q, "PAR-end"))
			}
		}
		pl.progs = numIDs(withAlone(ps, 24))
		pl.scen = func(p *pg.Program) []genrt.Scenario {
			var out []genrt.Scenario
			out = append(out, predCombos(p, base(p, 2))...)
			if p.Par != nil {
				out = append(out, base(p, 1))
			}
			return out
		}
	case "C03":
		// more runnable user functions than the limit: the HB-overlap monitor
		// and the goroutine census on generated code, explicit and default limits
		var ps []*pg.Program
		for _, k := range []int{3, 6} {
			for _, conc := range []string{"expr", ""} {
				if k == 3 && conc == "" {
					continue
				}
				q := &pg.Parallel{Conc: conc}
				for i := 0; i < k; i++ {
					q.Items = append(q.Items, pg.Item{Kind: "task", Err: i%2 == 0})
				}
				ps = append(ps, parProg(q, fmt.Sprintf("PAR-indep%d", k)))
			}
		}
		{
			q := &pg.Parallel{Conc: "", Items: []pg.Item{{Kind: "tasks", Count: 6, Err: true}}}
			ps = append(ps, parProg(q, "PAR-tasks6"))
			s := &pg.Parallel{Conc: "", Items: []pg.Item{{Kind: "slice", Idx: true, Err: true}}}
			ps = append(ps, parProg(s, "PAR-slice6"))
			m := &pg.Parallel{Conc: "expr", Items: []pg.Item{{Kind: "map", Err: true}}}
			ps = append(ps, parProg(m, "PAR-map3"))
		}
		{
			f := pg.Shape("indep3")
			f.Conc = ""
			ps = append(ps, flowProg(f, "flow-indep3-default"))
			g := exprConc(pg.Shape("indep3"))
			ps = append(ps, flowProg(g, "flow-indep3"))
			ps = append(ps, flowProg(indepFlow(6), "flow-indep6-default"))
		}
		{
			q := &pg.Parallel{Conc: ""}
			for i := 0; i < 5; i++ {
				q.Items = append(q.Items, pg.Item{Kind: "task", Err: i%2 == 0})
			}
			ps = append(ps, parProg(q, "over:PAR-indep5-default"))
			ps = append(ps, flowProg(indepFlow(5), "over:flow-indep5-default"))
			q3 := &pg.Parallel{Conc: "expr"}
			for i := 0; i < 3; i++ {
				q3.Items = append(q3.Items, pg.Item{Kind: "task", Err: i%2 == 0})
			}
			ps = append(ps, parProg(q3, "over:PAR-indep3"))
			ps = append(ps, flowProg(exprConc(pg.Shape("indep3")), "over:flow-indep3"))
			sl := &pg.Parallel{Conc: "", Items: []pg.Item{{Kind: "slice", Idx: true, Err: true}}}
			ps = append(ps, parProg(sl, "over:PAR-slice5-default"))
		}
		// capacity: `limit` runnable functions must execute at the same time, whatever else has been enqueued
		{
			a := &pg.Parallel{Conc: "expr", Items: []pg.Item{{Kind: "slice", Idx: true, Err: true, End: &pg.End{}}, {Kind: "task"}}}
			ps = append(ps, parProg(a, "cap:slice-end+task"))
			b := &pg.Parallel{Conc: "expr", Items: []pg.Item{{Kind: "map", Err: true, End: &pg.End{Err: true}}, {Kind: "task", Err: true}}}
			ps = append(ps, parProg(b, "cap:map-end+task"))
			c := &pg.Parallel{Conc: "expr", Items: []pg.Item{{Kind: "task"}, {Kind: "task", Err: true}}}
			ps = append(ps, parProg(c, "cap:task+task"))
			// two collections: the End hook of the first is enqueued between their elements
			d := &pg.Parallel{Conc: "expr", Items: []pg.Item{{Kind: "slice", Idx: true, Err: true, End: &pg.End{}, Coll: 0}, {Kind: "slice", Idx: true, Coll: 1}}}
			ps = append(ps, parProg(d, "cap:slice-end+slice"))
			e := &pg.Parallel{Conc: "expr", Items: []pg.Item{{Kind: "map", Err: true, End: &pg.End{Err: true}, Coll: 0}, {Kind: "slice", Idx: true, Coll: 0}}}
			ps = append(ps, parProg(e, "cap:map-end+slice"))
			g := &pg.Parallel{Conc: "expr", Items: []pg.Item{{Kind: "slice", Err: true, End: &pg.End{Ctx: true, Err: true}, Coll: 0}, {Kind: "map", Err: true, Coll: 0}}}
			ps = append(ps, parProg(g, "cap:slice-end+map"))
			ps = append(ps, flowProg(exprConc(pg.Shape("fork")), "cap:fork"))
			for _, f := range pg.WithPredFallback(pg.Shape("fork"), []string{"none", "shared"}, 1) {
				if !hasFallback(f) {
					ps = append(ps, flowProg(exprConc(f), "cap:fork+pred"))
				}
			}
		}
		// a user emitter: reports must not cost goroutines
		for _, n := range []string{"chain2", "fork"} {
			f := exprConc(pg.Shape(n))
			f.Emitters = "1"
			ps = append(ps, flowProg(f, "EMIT:"+n))
		}
		{
			q := &pg.Parallel{Conc: "expr", Emitters: "1", Items: []pg.Item{{Kind: "slice", Idx: true, Err: true}}}
			ps = append(ps, parProg(q, "EMIT:PAR-slice"))
		}
		// a wide limit (one above a ladder of sizes): all `limit` elements of a slice must run at once
		for _, w := range []int{17, 65} {
			q := &pg.Parallel{Conc: "expr", Items: []pg.Item{{Kind: "slice", Idx: true, Err: true}}}
			ps = append(ps, parProg(q, fmt.Sprintf("wide:%d", w)))
		}
		// predicates are user functions too
		for _, n := range []string{"fork", "indep3"} {
			for _, f := range pg.WithPredFallback(pg.Shape(n), []string{"none", "shared"}, 1) {
				if !hasFallback(f) {
					ps = append(ps, flowProg(exprConc(f), "PF:"+n))
				}
			}
		}
		pl.progs = numIDs(ps)
		pl.scen = func(p *pg.Program) []genrt.Scenario {
			var out []genrt.Scenario
			if strings.HasPrefix(p.Fam, "cap:") {
				// two functions that do not depend on each other meet at a barrier (N=2)
				var ids []string
				if p.Par != nil {
					for k, it := range p.Par.Items {
						if it.Kind == "slice" || it.Kind == "map" {
							continue
						}
						ids = append(ids, pg.ItemID(p.ID, k))
					}
					sc := base(p, 2)
					if len(ids) == 0 {
						// two collections with one element each
						sc.Colls, sc.Maps = nil, nil
						for k, it := range p.Par.Items {
							if it.Kind == "slice" {
								for len(sc.Colls) <= it.Coll {
									sc.Colls = append(sc.Colls, []uint64{7})
								}
							}
							if it.Kind == "map" {
								for len(sc.Maps) <= it.Coll {
									sc.Maps = append(sc.Maps, map[string]uint64{"1": 11})
								}
							}
							ids = append(ids, pg.ItemID(p.ID, k))
						}
						return []genrt.Scenario{withDec(sc, ids, probe.Bar)}
					}
					if len(ids) == 1 {
						// the single element of the collection is the other participant
						for k, it := range p.Par.Items {
							if it.Kind == "slice" {
								sc.Colls = [][]uint64{{7}}
								ids = append(ids, pg.ItemID(p.ID, k))
							}
							if it.Kind == "map" {
								sc.Maps = []map[string]uint64{{"1": 11}}
								ids = append(ids, pg.ItemID(p.ID, k))
							}
						}
					}
					return []genrt.Scenario{withDec(sc, ids, probe.Bar)}
				}
				sc := base(p, 2)
				ids = []string{pg.TaskID(p.ID, 0), pg.TaskID(p.ID, 1)}
				scs := predCombosTrue(p, withDec(sc, ids, probe.Bar))
				return scs
			}
			if strings.HasPrefix(p.Fam, "PF:") {
				for _, n := range []int{1, 2} {
					out = append(out, predCombos(p, base(p, n))...)
				}
				return out
			}
			if strings.HasPrefix(p.Fam, "EMIT:") {
				for _, n := range []int{1, 2} {
					for _, ticks := range []int{1, 2} {
						if n == 2 && ticks == 2 && !th {
							continue
						}
						sc := base(p, n)
						sc.Ticks = ticks
						out = append(out, sc)
					}
				}
				return out
			}
			if strings.HasPrefix(p.Fam, "wide:") {
				// boundary probe: first schedules of the zero-preemption search only (reported as bounded)
				var w int
				fmt.Sscanf(p.Fam, "wide:%d", &w)
				sc := base(p, w)
				el := make([]uint64, w)
				for i := range el {
					el[i] = uint64(i + 1)
				}
				sc.Colls = [][]uint64{el}
				sc = withDec(sc, []string{pg.ItemID(p.ID, 0)}, probe.Bar)
				sc.OverN = w
				sc.PreemptBound = 1
				sc.MaxExecs = 16
				if th {
					sc.MaxExecs = 128
				}
				sc.Note = "bounded"
				return []genrt.Scenario{sc}
			}
			if strings.HasPrefix(p.Fam, "over:") {
				// limit+1 functions that can only all return if they run at the same time
				n := 0
				if strings.HasSuffix(p.Fam, "3") {
					n = 2
				}
				sc := base(p, n)
				sc.GOMAXP = 2
				var ids []string
				if p.Par != nil && p.Par.Items[0].Kind == "slice" {
					sc.Colls = [][]uint64{{1, 2, 3, 4, 5}}
					ids = []string{pg.ItemID(p.ID, 0)}
					sc = withDec(sc, ids, probe.OverBar)
					sc.OverN = 5
				} else {
					ids = panickable(p)
					sc = withDec(sc, ids, probe.OverBar)
				}
				return []genrt.Scenario{sc}
			}
			big := strings.Contains(p.Fam, "6") || p.Fam == "flow-indep3-default"
			if big {
				// too large for all interleavings: every schedule without preemption
				sc := base(p, 0)
				if p.Par != nil && p.Par.Items[0].Kind == "slice" {
					sc.Colls = [][]uint64{{1, 2, 3, 4, 5, 6}}
				}
				sc.GOMAXP = 2
				sc.PreemptBound = 1
				sc.MaxExecs = 20000
				sc.Note = "bounded"
				out = append(out, sc)
				return out
			}
			nn := []int{1, 2}
			if (p.Flow != nil && p.Flow.Conc == "") || (p.Par != nil && p.Par.Conc == "") {
				nn = []int{0}
			}
			for _, n := range nn {
				sc := base(p, n)
				if p.Par != nil && p.Par.Items[0].Kind == "map" && n == 1 {
					sc.Maps = []map[string]uint64{{"1": 11, "2": 12, "3": 13}}
				}
				if n == 0 {
					sc.GOMAXP = 2
				}
				out = append(out, sc)
			}
			return out
		}
	case "C05", "C06":
		// termination and goroutine leaks of whole directives
		var ps []*pg.Program
		for _, n := range []string{"single", "chain2", "fork", "join"} {
			f := exprConc(pg.Shape(n))
			for i := range f.Tasks {
				f.Tasks[i].Ctx = i%2 == 0
			}
			ps = append(ps, flowProg(f, "shape:"+n))
		}
		{
			f := pg.Shape("fork")
			f.Conc = ""
			ps = append(ps, flowProg(f, "default-conc:fork"))
			f2 := pg.Shape("single")
			f2.Conc = ""
			ps = append(ps, flowProg(f2, "default-conc:single"))
		}
		for _, f := range pg.WithPredFallback(pg.Shape("chain2"), []string{"shared"}, 1) {
			ps = append(ps, flowProg(exprConc(f), "PF:chain2"))
		}
		for i, par := range pg.Pars(2, false) {
			if !th && ((len(par.Items) == 2 && i%4 != 0) || (len(par.Items) == 1 && i%2 == 1)) {
				continue
			}
			for _, coe := range []string{"", "true"} {
				if coe != "" && par.HasEnd() {
					continue
				}
				q := par.Clone()
				q.Conc = "expr"
				q.COE = coe
				ps = append(ps, parProg(q, "PAR"))
			}
		}
		{
			q := &pg.Parallel{Conc: "", Items: []pg.Item{{Kind: "task", Err: true}, {Kind: "task", Ctx: true}}}
			ps = append(ps, parProg(q, "default-conc:par"))
		}
		pl.progs = numIDs(ps)
		pl.scen = func(p *pg.Program) []genrt.Scenario {
			var out []genrt.Scenario
			n := 2
			defaultConc := strings.HasPrefix(p.Fam, "default-conc")
			if defaultConc {
				n = 0
			}
			mk := func() genrt.Scenario {
				sc := base(p, n)
				sc.COE = true
				if defaultConc {
					sc.GOMAXP = 1
				}
				return sc
			}
			out = append(out, predCombos(p, mk())...)
			for _, sub := range subsetsOf(failable(p), 2) {
				out = append(out, withDec(mk(), sub, probe.Fail))
			}
			all := panickable(p)
			for i, id := range all {
				if i > 1 {
					break
				}
				s1 := withDec(mk(), []string{id}, probe.Panic)
				s1.PanicKind = "string"
				out = append(out, s1)
				if !isPredID(id) {
					out = append(out, withDec(mk(), []string{id}, probe.Goexit))
					out = append(out, withDec(mk(), []string{id}, probe.Cancel))
				}
			}
			pre := mk()
			pre.Cancel = "pre"
			out = append(out, pre)
			if !defaultConc && (th || jobCount(p, &pre) <= 2) {
				thr := mk()
				thr.Cancel = "thread"
				out = append(out, thr)
			}
			// a function still running when another one fails / the context is cancelled
			fl := failable(p)
			for _, g := range all {
				if isPredID(g) {
					continue
				}
				for _, id := range fl {
					if id != g {
						out = append(out, withDec(withDec(mk(), []string{id}, probe.Fail), []string{g}, probe.Gate))
						break
					}
				}
				break
			}
			if p.Fam == "shape:single" || p.Fam == "shape:chain2" {
				s6 := base(p, 1)
				s6.Instances = 2
				out = append(out, s6)
			}
			return out
		}
	case "C02":
		ps := coreFlows(th)
		// listing orders
		for _, n := range []string{"chain2", "multi", "join", "invoke"} {
			f := exprConc(pg.Shape(n))
			max := 24
			if th {
				max = 120
			}
			for _, o := range pg.Orders(f, max) {
				g := f.Clone()
				g.Order = o
				ps = append(ps, flowProg(g, "L:"+n))
			}
		}
		// every permutation of the tasks in the listing, for shapes with 2-4 tasks
		tshapes := []string{"chain2", "join", "multi", "dup3"}
		if th {
			tshapes = append(tshapes, "chain3", "diamond", "invoke", "fork")
		}
		for _, n := range tshapes {
			f := exprConc(pg.Shape(n))
			for _, o := range pg.TaskOrders(f) {
				g := f.Clone()
				g.Order = o
				ps = append(ps, flowProg(g, "LT:"+n))
			}
		}
		// spellings of value types and forms of task expressions
		for _, sp := range []string{pg.SpPtr, pg.SpBasic, pg.SpSlice, pg.SpMap, pg.SpGeneric, pg.SpExt, pg.SpAnon, pg.SpArray, pg.SpFunc} {
			for _, n := range []string{"chain2", "multi"} {
				f := exprConc(pg.Shape(n))
				for i := range f.Types {
					f.Types[i] = sp
				}
				ps = append(ps, flowProg(f, "S:types="+sp))
			}
			f := exprConc(pg.Shape("diamond"))
			for i := range f.Types {
				if i%2 == 1 {
					f.Types[i] = sp
				}
			}
			ps = append(ps, flowProg(f, "S:mixed="+sp))
		}
		for _, form := range []string{"func", "method", "var"} {
			for _, n := range []string{"chain2", "join"} {
				f := exprConc(pg.Shape(n))
				for i := range f.Tasks {
					f.Tasks[i].Form = form
					f.Tasks[i].Ctx = i%2 == 0
				}
				ps = append(ps, flowProg(f, "S:form="+form))
			}
		}
		// value types that are assignable to one another (named interfaces with one method set): an argument bound
		// to the wrong provider still compiles, so only the values tell; and parameter lists that repeat a type
		for _, n := range []string{"chain2", "multi", "join", "diamond", "dup3"} {
			f := exprConc(pg.Shape(n))
			for i := range f.Types {
				f.Types[i] = pg.SpIface
			}
			ps = append(ps, flowProg(f, "S:types=iface"))
		}
		for _, pat := range []string{"00", "001", "010", "100", "011", "101", "110", "0011", "0101"} {
			for _, sp := range []string{"", pg.SpIface} {
				f := exprConc(pg.Shape("rep:" + pat))
				for i := range f.Types {
					if sp != "" {
						f.Types[i] = sp
					}
				}
				ps = append(ps, flowProg(f, "S:rep:"+pat+":"+sp))
			}
		}
		// a value type that the directive's context would satisfy (an interface named Context of a user package
		// called context): it is a value like any other, wherever it stands in a parameter list
		for _, n := range []string{"midres", "chain2", "join"} {
			for ti := 0; ti < 2; ti++ {
				f := exprConc(pg.Shape(n))
				f.Types[ti+1] = pg.SpCtxLike
				for i := range f.Tasks {
					f.Tasks[i].Ctx = i%2 == 1 && ti == 1
				}
				ps = append(ps, flowProg(f, "S:types=ctxlike:"+n))
			}
		}
		// several cff.Results / cff.Params options in one directive
		for _, n := range []string{"fork", "indep3", "pthru", "midres", "dupres", "pjoin"} {
			for _, sp := range []string{"results", "results-spread", "params", "both"} {
				f := exprConc(pg.Shape(n))
				if (sp == "params" || sp == "both") && len(f.Params) < 2 && sp != "both" {
					continue
				}
				if (sp == "results" || sp == "results-spread") && len(f.Results) < 2 {
					continue
				}
				p := flowProg(f, "S:split="+sp+":"+n)
				p.F.SplitOpts = sp
				ps = append(ps, p)
			}
		}
		for _, enc := range []string{"closure", "generic", "method", "nested2"} {
			f := exprConc(pg.Shape("chain2"))
			p := flowProg(f, "S:enclose="+enc)
			p.F.Enclose = enc
			ps = append(ps, p)
		}
		for _, nm := range []string{"ctx", "err", "tasks", "sched", "emitter", "v1", "v2", "startTime", "task0"} {
			p := flowProg(exprConc(pg.Shape("chain2")), "S:resultname="+nm)
			p.F.ResultName = nm
			ps = append(ps, p)
		}
		{
			f := exprConc(pg.Shape("chain2"))
			f.Types[2] = pg.SpTime
			p := flowProg(f, "S:resultname=startTime/time")
			p.F.ResultName = "startTime"
			ps = append(ps, p)
		}
		// concurrency spelled as a constant, and absent (default worker count)
		for _, c := range []string{"1", "2", ""} {
			f := pg.Shape("fork")
			f.Conc = c
			ps = append(ps, flowProg(f, "conc="+c))
		}
		// predicates
		for _, n := range []string{"chain2", "fork"} {
			for _, f := range pg.WithPredFallback(pg.Shape(n), []string{"none", "shared", "own"}, 2) {
				if hasFallback(f) {
					continue
				}
				ps = append(ps, flowProg(exprConc(f), "PF:"+n))
			}
		}
		pl.progs = numIDs(ps)
		pl.scen = func(p *pg.Program) []genrt.Scenario {
			var out []genrt.Scenario
			nn := ns
			if p.Flow.Conc != "expr" {
				nn = []int{0}
			}
			for _, n := range nn {
				out = append(out, predCombos(p, base(p, n))...)
			}
			if p.Fam == "shape:single" || p.Fam == "shape:chain2" || (th && p.Fam == "shape:fork") {
				sc := base(p, 1)
				sc.Instances = 2
				out = append(out, sc)
			}
			return out
		}
	case "C07":
		var ps []*pg.Program
		for _, n := range []string{"single", "chain2", "chain3", "fork", "join", "diamond", "multi", "invoke", "indep3", "dup3"} {
			ps = append(ps, flowProg(exprConc(pg.Shape(n)), "shape:"+n))
		}
		for _, par := range pg.Pars(2, false) {
			if par.COE == "" {
				q := par.Clone()
				q.Conc = "expr"
				ps = append(ps, parProg(q, "PAR"))
			}
		}
		for _, n := range []string{"chain2", "fork", "chain3", "join"} {
			pls := []string{"none", "shared"}
			if n == "chain3" || n == "join" {
				pls = []string{"none", "upstream"}
			}
			for _, f := range pg.WithPredFallback(pg.Shape(n), pls, 1) {
				if hasFallback(f) {
					continue
				}
				ps = append(ps, flowProg(exprConc(f), "PF:"+n))
			}
		}
		{
			f := pg.Shape("fork")
			f.Conc = ""
			ps = append(ps, flowProg(f, "default-conc:fork"))
		}
		pl.progs = numIDs(withAlone(ps, 24))
		pl.scen = func(p *pg.Program) []genrt.Scenario {
			var out []genrt.Scenario
			if strings.HasPrefix(p.Fam, "PF:") {
				// a predicate that panics fails the flow like a failing task
				for _, pid := range preds(p) {
					for _, n := range ns {
						sc := withDec(base(p, n), []string{pid}, probe.Panic)
						sc.PanicKind = "error"
						out = append(out, sc)
					}
					out = append(out, withDec(base(p, 2), []string{pid}, probe.False))
				}
			}
			if strings.HasPrefix(p.Fam, "default-conc") {
				for _, sub := range subsetsOf(failable(p), 2) {
					sc := withDec(base(p, 0), sub, probe.Fail)
					sc.GOMAXP = 1
					out = append(out, sc)
				}
				return out
			}
			ids := failable(p)
			max := 3
			if len(ids) > 4 {
				max = 2
			}
			for _, sub := range subsetsOf(ids, max) {
				for _, n := range ns {
					if n == 1 && len(sub) > 1 && p.Par != nil {
						continue
					}
					out = append(out, withDec(base(p, n), sub, probe.Fail))
				}
			}
			out = append(out, base(p, 2))
			// a panic is a failure too: one panicking function at a time
			for _, id := range panickable(p) {
				if isPredID(id) {
					continue
				}
				sc := withDec(base(p, 2), []string{id}, probe.Panic)
				sc.PanicKind = "error"
				out = append(out, sc)
			}
			return out
		}
	case "C04":
		var ps []*pg.Program
		for _, n := range []string{"single", "chain2", "fork", "join"} {
			ps = append(ps, flowProg(exprConc(pg.Shape(n)), "shape:"+n))
		}
		for _, n := range []string{"chain2", "fork"} {
			for _, f := range pg.WithPredFallback(pg.Shape(n), []string{"shared"}, 1) {
				ps = append(ps, flowProg(exprConc(f), "PF:"+n))
			}
		}
		// a panicking predicate in every listing order of the tasks (the edge from a task to its predicate is what reports it)
		for _, f := range pg.WithPredFallback(pg.Shape("chain2"), []string{"none", "shared", "upstream"}, 1) {
			g := exprConc(f)
			for oi, o := range pg.TaskOrders(g) {
				if oi == 0 {
					continue
				}
				h := g.Clone()
				h.Order = o
				ps = append(ps, flowProg(h, "PF-LT:chain2"))
			}
		}
		for _, par := range pg.Pars(2, false) {
			q := par.Clone()
			q.Conc = "expr"
			ps = append(ps, parProg(q, "PAR"))
			if !q.HasEnd() {
				c := par.Clone()
				c.Conc = "expr"
				c.COE = "true"
				ps = append(ps, parProg(c, "PAR-coe"))
			}
		}
		// instrumented directives: the recover blocks also talk to the emitters
		{
			f := exprConc(pg.Shape("fork"))
			f.Emitters, f.Instrument = "1", true
			for i := range f.Tasks {
				f.Tasks[i].Instrument = true
			}
			ps = append(ps, flowProg(f, "INS:fork"))
			for _, f := range pg.WithPredFallback(pg.Shape("chain2"), []string{"shared"}, 1) {
				g := exprConc(f)
				g.Emitters, g.Instrument = "1", true
				for i := range g.Tasks {
					g.Tasks[i].Instrument = true
				}
				ps = append(ps, flowProg(g, "INS-PF:chain2"))
			}
			for _, par := range pg.Pars(1, false) {
				for _, coe := range []string{"", "true"} {
					if coe != "" && par.HasEnd() {
						continue
					}
					q := par.Clone()
					q.Conc, q.COE = "expr", coe
					q.Emitters, q.Instrument = "1", true
					for i := range q.Items {
						q.Items[i].Instrument = true
					}
					ps = append(ps, parProg(q, "INS-PAR"))
				}
			}
		}
		pl.progs = numIDs(withAlone(ps, 24))
		pl.scen = func(p *pg.Program) []genrt.Scenario {
			var out []genrt.Scenario
			ids := panickable(p)
			kinds := []string{"string", "error", "runtime", "struct", "panicerror", "uncmp"}
			ki := 0
			for _, sub := range subsetsOf(ids, 2) {
				for _, n := range ns {
					if n == 1 && len(sub) > 1 {
						continue
					}
					sc := withDec(base(p, n), sub, probe.Panic)
					if len(sub) == 1 && n == 2 {
						for _, k := range kinds {
							s2 := sc
							s2.PanicKind = k
							out = append(out, s2)
						}
					} else {
						sc.PanicKind = kinds[ki%len(kinds)]
						ki++
						out = append(out, sc)
						if len(sub) == 2 && sc.PanicKind != "uncmp" && (p.Fam == "PAR-coe" || strings.HasPrefix(p.Fam, "INS")) {
							// two panic values of one type that == cannot compare
							s2 := sc
							s2.PanicKind = "uncmp"
							out = append(out, s2)
						}
					}
				}
			}
			if p.Fam == "shape:single" {
				sc := withDec(base(p, 1), ids[:1], probe.Panic)
				sc.Instances = 2
				sc.PanicKind = "string"
				out = append(out, sc)
			}
			return out
		}
	case "C08":
		var ps []*pg.Program
		for _, par := range pg.Pars(2, th) {
			if par.HasEnd() {
				continue
			}
			for _, coe := range []string{"true", "expr"} {
				q := par.Clone()
				q.Conc = "expr"
				q.COE = coe
				ps = append(ps, parProg(q, "PAR-coe="+coe))
			}
		}
		for _, par := range pg.Pars(1, false) {
			if par.HasEnd() {
				continue
			}
			q := par.Clone()
			q.Conc = "expr"
			q.COE = "false"
			ps = append(ps, parProg(q, "PAR-coe=false"))
		}
		// the other scheduler parameters next to ContinueOnError: a user emitter, instrumentation, the default limit
		for _, par := range pg.Pars(2, false) {
			if par.HasEnd() || len(par.Items) < 2 {
				continue
			}
			for vi, variant := range []string{"emit", "ins", "defconc"} {
				q := par.Clone()
				q.Conc, q.COE = "expr", []string{"true", "expr"}[vi%2]
				switch variant {
				case "emit":
					q.Emitters = "1"
				case "ins":
					q.Emitters, q.Instrument = "stack", true
				case "defconc":
					q.Conc = ""
					if q.Items[0].Kind != "task" || q.Items[1].Kind != "task" {
						continue
					}
				}
				ps = append(ps, parProg(q, "PAR-coe+"+variant))
			}
		}
		pl.progs = numIDs(ps)
		pl.scen = func(p *pg.Program) []genrt.Scenario {
			var out []genrt.Scenario
			ids := failable(p)
			ns := ns
			if p.Par.Conc == "" {
				ns = []int{0}
			}
			for _, sub := range subsetsOf(ids, 3) {
				for _, n := range ns {
					if n == 1 && len(sub) > 1 {
						continue
					}
					coes := []bool{true}
					if p.Par.COE == "expr" {
						coes = []bool{true, false}
					}
					for _, c := range coes {
						sc := withDec(base(p, n), sub, probe.Fail)
						sc.COE = c
						out = append(out, sc)
					}
				}
			}
			pn := panickable(p)
			if len(pn) > 0 {
				sc := withDec(base(p, 2), pn[:1], probe.Panic)
				sc.COE = true
				sc.PanicKind = "error"
				out = append(out, sc)
				if len(ids) > 0 && ids[0] != pn[0] {
					sc2 := withDec(sc, ids[:1], probe.Fail)
					out = append(out, sc2)
				}
			}
			sc := base(p, 2)
			sc.COE = true
			out = append(out, sc)
			if p.Par.Conc == "" {
				for i := range out {
					out[i].N, out[i].GOMAXP = 0, 1
				}
			}
			return out
		}
	case "C09":
		var ps []*pg.Program
		for _, n := range []string{"single", "chain2", "fork", "join"} {
			f := exprConc(pg.Shape(n))
			for i := range f.Tasks {
				f.Tasks[i].Ctx = true
			}
			ps = append(ps, flowProg(f, "shape:"+n))
		}
		for _, f := range pg.WithPredFallback(pg.Shape("chain2"), []string{"none", "nonectx", "shared", "own"}, 1) {
			if hasFallback(f) {
				continue
			}
			ps = append(ps, flowProg(exprConc(f), "PF:chain2"))
		}
		for _, par := range pg.Pars(2, false) {
			for _, coe := range []string{"", "true"} {
				if coe != "" && par.HasEnd() {
					continue
				}
				q := par.Clone()
				q.Conc = "expr"
				q.COE = coe
				ps = append(ps, parProg(q, "PAR"))
			}
		}
		// the smallest directives, with and without a Concurrency option (a special case in the generator would sit here)
		for _, n := range []string{"single", "source", "chain2"} {
			for _, conc := range []string{"", "2"} {
				f := pg.Shape(n)
				f.Conc = conc
				for i := range f.Tasks {
					f.Tasks[i].Ctx = i%2 == 0
				}
				ps = append(ps, flowProg(f, "min:"+n+":conc="+conc))
			}
		}
		for _, par := range pg.Pars(1, false) {
			q := par.Clone()
			q.Conc = ""
			ps = append(ps, parProg(q, "min:PAR:conc="))
		}
		pl.progs = numIDs(ps)
		pl.scen = func(p *pg.Program) []genrt.Scenario {
			var out []genrt.Scenario
			nn := ns
			if strings.HasPrefix(p.Fam, "min:") {
				nn = []int{0}
			}
			for _, n := range nn {
				pre := base(p, n)
				pre.Cancel = "pre"
				pre.COE = true
				out = append(out, pre)
				if (n == 2 || p.Flow != nil) && (th || n == 1 || jobCount(p, &pre) <= 2) {
					thr := base(p, n)
					thr.Cancel = "thread"
					thr.COE = true
					out = append(out, thr)
				}
				ids := panickable(p)
				for i, id := range ids {
					if i > 1 {
						break
					}
					sc := withDec(base(p, n), []string{id}, probe.Cancel)
					sc.COE = true
					out = append(out, sc)
				}
				// a predicate that cancels the context and returns true: its task must not start
				for _, pid := range preds(p) {
					sc := withDec(base(p, n), []string{pid}, probe.Cancel)
					sc.COE = true
					out = append(out, sc)
				}
			}
			// a task still running (gated) when the context is cancelled by another task
			ids := panickable(p)
			if len(ids) >= 2 && p.Par != nil && len(p.Par.Items) == 2 && p.Par.Items[0].Kind == "task" && p.Par.Items[1].Kind == "task" {
				sc := withDec(withDec(base(p, 2), ids[:1], probe.Gate), ids[1:2], probe.Cancel)
				sc.COE = true
				out = append(out, sc)
			}
			if p.Fam == "shape:fork" {
				sc := withDec(withDec(base(p, 2), ids[:1], probe.Gate), ids[1:2], probe.Cancel)
				out = append(out, sc)
			}
			if strings.HasPrefix(p.Fam, "min:") {
				if len(ids) > 0 && !isPredID(ids[0]) {
					// the only/first function is still running when another thread cancels: the call returns all the same
					sc := withDec(base(p, 0), ids[:1], probe.Gate)
					sc.Cancel = "thread"
					out = append(out, sc)
				}
				for i := range out {
					out[i].GOMAXP = 1
				}
			}
			return out
		}
	case "C10":
		var ps []*pg.Program
		for _, par := range pg.Pars(3, true) {
			q := par.Clone()
			q.Conc = "expr"
			ps = append(ps, parProg(q, "PAR"))
		}
		for _, par := range pg.Pars(1, false) {
			q := par.Clone()
			q.Conc = ""
			p := parProg(q, "PAR-generic")
			p.F.Enclose = "generic"
			ps = append(ps, p)
		}
		pl.progs = numIDs(ps)
		pl.scen = func(p *pg.Program) []genrt.Scenario {
			var out []genrt.Scenario
			nn := ns
			if p.Par.Conc != "expr" {
				nn = []int{0}
			}
			single := len(p.Par.Items) == 1
			for _, n := range nn {
				out = append(out, base(p, n))
				if single && (p.Par.Items[0].Kind == "slice") {
					for _, c := range [][]uint64{nil, {}, {5}, {7, 8, 9}} {
						if len(c) == 3 && n != 2 {
							continue
						}
						sc := base(p, n)
						sc.Colls = [][]uint64{c}
						out = append(out, sc)
					}
				}
				if single && (p.Par.Items[0].Kind == "map") {
					for _, m := range []map[string]uint64{nil, {}, {"3": 13}} {
						sc := base(p, n)
						sc.Maps = []map[string]uint64{m}
						out = append(out, sc)
					}
				}
			}
			// failures: End hooks must not run
			for _, sub := range subsetsOf(failable(p), 1) {
				out = append(out, withDec(base(p, 2), sub, probe.Fail))
			}
			for i, id := range panickable(p) {
				if i > 1 {
					break
				}
				sc := withDec(base(p, 2), []string{id}, probe.Panic)
				sc.PanicKind = "string"
				out = append(out, sc)
			}
			return out
		}
	case "C11":
		var ps []*pg.Program
		kinds := []string{"none", "shared", "own", "upstream"}
		for _, n := range []string{"single", "chain2", "fork", "join"} {
			max := 2
			if n == "join" && !th {
				max = 1
			}
			for _, f := range pg.WithPredFallback(pg.Shape(n), kinds, max) {
				ps = append(ps, flowProg(exprConc(f), "PF:"+n))
			}
		}
		if th {
			for _, f := range pg.WithPredFallback(pg.Shape("chain3"), []string{"shared", "own"}, 2) {
				ps = append(ps, flowProg(exprConc(f), "PF:chain3"))
			}
		}
		for _, f := range pg.WithPredFallback(pg.Shape("chain2"), []string{"nonectx"}, 1) {
			ps = append(ps, flowProg(exprConc(f), "PF:ctx"))
		}
		// a fallback value passed as an identifier that has the name and the type of a local of the generated task closure
		for _, f := range pg.WithPredFallback(pg.Shape("chain2"), nil, 2) {
			if !f.Tasks[1].Fallback {
				continue
			}
			g := exprConc(f)
			g.Types[2] = pg.SpTime
			p := flowProg(g, "PF:ident-startTime")
			p.F.IdentArg, p.F.IdentPos = "startTime", -1
			ps = append(ps, p)
		}
		// a task without results (Invoke) with the value-less FallbackWith(), with and without a predicate
		for _, f := range pg.WithPredFallback(pg.Shape("invoke"), []string{"none", "shared"}, 2) {
			ps = append(ps, flowProg(exprConc(f), "PF:invoke"))
		}
		// every task listing order for flows with one predicate or fallback
		for _, n := range []string{"chain2", "join"} {
			if n == "join" && !th {
				continue
			}
			for _, f := range pg.WithPredFallback(pg.Shape(n), []string{"none", "shared", "upstream"}, 1) {
				g := exprConc(f)
				for oi, o := range pg.TaskOrders(g) {
					if oi == 0 {
						continue // the default order is already in the family
					}
					h := g.Clone()
					h.Order = o
					ps = append(ps, flowProg(h, "PF-LT:"+n))
				}
			}
		}
		pl.progs = numIDs(withAlone(ps, 24))
		pl.scen = func(p *pg.Program) []genrt.Scenario {
			var out []genrt.Scenario
			// predicate outcomes {true,false,panic} x task outcomes {ok,err,panic} on marked tasks
			type fn struct {
				id    string
				kinds []string
			}
			var fns []fn
			for i, t := range p.Flow.Tasks {
				if t.Pred != nil {
					fns = append(fns, fn{pg.PredID(p.ID, i), []string{probe.True, probe.False, probe.Panic}})
				}
				if t.Pred != nil || t.Fallback {
					fns = append(fns, fn{pg.TaskID(p.ID, i), []string{probe.OK, probe.Fail, probe.Panic}})
				}
			}
			scs := []genrt.Scenario{base(p, 2)}
			for _, f := range fns {
				var next []genrt.Scenario
				for _, s := range scs {
					for _, k := range f.kinds {
						s2 := withDec(s, []string{f.id}, k)
						s2.PanicKind = "string"
						next = append(next, s2)
					}
				}
				scs = next
			}
			if len(scs) > 81 {
				scs = scs[:81]
			}
			out = append(out, scs...)
			out = append(out, predCombos(p, base(p, 1))...)
			return out
		}
	case "C12":
		var ps []*pg.Program
		shapes := []string{"single", "chain2", "fork", "join", "multi", "dup3"}
		if th {
			shapes = append(shapes, "diamond", "chain3", "indep3", "invoke")
		}
		for _, n := range shapes {
			f := exprConc(pg.Shape(n))
			for i := range f.Tasks {
				f.Tasks[i].Ctx = i%2 == 1
			}
			ps = append(ps, flowProg(f, "shape:"+n))
		}
		// instrumented variants: emitters touch the ran flags and task state
		for _, n := range []string{"chain2", "fork"} {
			f := exprConc(pg.Shape(n))
			f.Emitters = "1"
			f.Instrument = true
			for i := range f.Tasks {
				f.Tasks[i].Instrument = true
			}
			ps = append(ps, flowProg(f, "INS:"+n))
		}
		for _, f := range pg.WithPredFallback(pg.Shape("chain2"), []string{"shared", "own"}, 1) {
			ps = append(ps, flowProg(exprConc(f), "PF:chain2"))
		}
		for _, f := range pg.WithPredFallback(pg.Shape("fork"), []string{"shared"}, 1) {
			ps = append(ps, flowProg(exprConc(f), "PF:fork"))
		}
		npar := 1
		if th {
			npar = 2
		}
		for i, par := range pg.Pars(2, false) {
			if !th && len(par.Items) == 2 && i%3 != 0 {
				continue
			}
			_ = npar
			for _, coe := range []string{"", "true"} {
				if coe != "" && par.HasEnd() {
					continue
				}
				q := par.Clone()
				q.Conc = "expr"
				q.COE = coe
				ps = append(ps, parProg(q, "PAR"))
			}
		}
		{
			q := &pg.Parallel{Items: []pg.Item{{Kind: "task", Err: true, Instrument: true}, {Kind: "task", Ctx: true, Instrument: true}}, Conc: "expr", Emitters: "1", Instrument: true}
			ps = append(ps, parProg(q, "INS-PAR"))
			// a fallback value passed as an identifier that the caller reassigns right after the directive returned
			// early, while the task owning the fallback is still running and fails later
			for _, f := range pg.WithPredFallback(pg.Shape("fork"), nil, 1) {
				if f.Tasks[1].Fallback {
					g := exprConc(f)
					p := flowProg(g, "IDENT-late:fork")
					p.F.IdentArg, p.F.IdentPos, p.F.AssignAfter = "fbv", -1, true
					ps = append(ps, p)
				}
			}
			// two concurrent directives that were given the same emitter stack plus one emitter of their own
			f := exprConc(pg.Shape("single"))
			f.Emitters = "prestack"
			f.Instrument = true
			ps = append(ps, flowProg(f, "INS-prestack:single"))
		}
		pl.progs = numIDs(ps)
		pl.scen = func(p *pg.Program) []genrt.Scenario {
			var out []genrt.Scenario
			if strings.HasPrefix(p.Fam, "INS-prestack") {
				s6 := base(p, 1)
				s6.Instances = 2
				return []genrt.Scenario{s6}
			}
			if strings.HasPrefix(p.Fam, "IDENT-late") {
				sc := withDec(withDec(base(p, 2), []string{pg.TaskID(p.ID, 0)}, probe.Fail), []string{pg.TaskID(p.ID, 1)}, probe.GateFail)
				return []genrt.Scenario{sc, base(p, 2)}
			}
			sc := base(p, 2)
			sc.COE = true
			out = append(out, sc)
			fl := failable(p)
			all := panickable(p)
			for i, id := range fl {
				if i > 1 {
					break
				}
				s1 := withDec(base(p, 2), []string{id}, probe.Fail)
				s1.COE = true
				out = append(out, s1)
				// early return: another function is still running (gated) when this one fails
				for _, g := range all {
					if g == id || isPredID(g) {
						continue
					}
					s2 := withDec(withDec(base(p, 2), []string{id}, probe.Fail), []string{g}, probe.Gate)
					out = append(out, s2)
					break
				}
			}
			if len(all) > 0 {
				s3 := withDec(base(p, 2), all[:1], probe.Panic)
				s3.PanicKind = "error"
				s3.COE = true
				out = append(out, s3)
			}
			// cancellation from another thread while functions run; cancellation with a function still running
			s4 := base(p, 2)
			s4.Cancel = "thread"
			s4.COE = true
			if th || jobCount(p, &s4) <= 2 {
				out = append(out, s4)
			}
			for _, g := range all {
				if isPredID(g) {
					continue
				}
				s5 := withDec(base(p, 2), []string{g}, probe.Gate)
				s5.Cancel = "thread"
				out = append(out, s5)
				break
			}
			if p.Fam == "shape:single" || p.Fam == "shape:chain2" {
				s6 := base(p, 1)
				s6.Instances = 2
				out = append(out, s6)
			}
			return out
		}
	case "C19":
		// state reports as the user's emitter receives them (through the root package's adapter)
		var ps []*pg.Program
		for _, n := range []string{"single", "chain2", "fork", "join"} {
			f := exprConc(pg.Shape(n))
			f.Emitters = "1"
			f.Instrument = true
			ps = append(ps, flowProg(f, "INS:"+n))
		}
		for _, f := range pg.WithPredFallback(pg.Shape("chain2"), []string{"shared"}, 1) {
			g := exprConc(f)
			g.Emitters = "1"
			ps = append(ps, flowProg(g, "INS-PF"))
		}
		{
			f := pg.Shape("fork")
			f.Conc = ""
			f.Emitters = "1"
			ps = append(ps, flowProg(f, "INS-default:fork"))
			q := &pg.Parallel{Items: []pg.Item{{Kind: "task", Err: true}, {Kind: "slice", Idx: true, Err: true}}, Conc: "expr", Emitters: "1"}
			ps = append(ps, parProg(q, "INS-PAR"))
		}
		pl.progs = numIDs(ps)
		pl.scen = func(p *pg.Program) []genrt.Scenario {
			var out []genrt.Scenario
			ns := []int{1, 2}
			if strings.HasPrefix(p.Fam, "INS-default") {
				ns = []int{0}
			}
			for _, n := range ns {
				for _, ticks := range []int{1, 2} {
					if ticks == 2 && (n != 1 || th == false && jobCount(p, &genrt.Scenario{}) > 2) {
						continue
					}
					for _, sc := range predCombos(p, base(p, n)) {
						sc.Ticks = ticks
						if n == 0 {
							sc.GOMAXP = 1
						}
						out = append(out, sc)
					}
				}
				fl := failable(p)
				if len(fl) > 0 {
					sc := withDec(base(p, n), fl[:1], probe.Fail)
					sc.Ticks = 1
					if n == 0 {
						sc.GOMAXP = 1
					}
					out = append(out, sc)
				}
			}
			return out
		}
	case "C15":
		var ps []*pg.Program
		mk := func(p *pg.Program) { p.F.Wrap = true; ps = append(ps, p) }
		for _, n := range []string{"single", "chain2", "fork", "join", "multi", "invoke"} {
			f := exprConc(pg.Shape(n))
			mk(flowProg(f, "shape:"+n))
		}
		for _, o := range pg.Orders(exprConc(pg.Shape("chain2")), 120) {
			f := exprConc(pg.Shape("chain2"))
			f.Order = o
			mk(flowProg(f, "L:chain2"))
		}
		for _, f := range pg.WithPredFallback(pg.Shape("chain2"), []string{"shared", "own"}, 2) {
			mk(flowProg(exprConc(f), "PF:chain2"))
		}
		for _, em := range []string{"1", "2", "stack"} {
			f := exprConc(pg.Shape("chain2"))
			f.Emitters = em
			f.Instrument = true
			f.Tasks[0].Instrument = true
			mk(flowProg(f, "INS:"+em))
		}
		// emitters on directives that instrument nothing, or only a task: the arguments are evaluated all the same
		for _, em := range []string{"1", "2", "stack"} {
			f := exprConc(pg.Shape("chain2"))
			f.Emitters = em
			mk(flowProg(f, "EMIT-only:"+em))
			g := exprConc(pg.Shape("chain2"))
			g.Emitters = em
			g.Tasks[1].Instrument = true
			mk(flowProg(g, "EMIT-task:"+em))
			q := pg.Pars(1, false)[0].Clone()
			q.Conc = "expr"
			q.Emitters = em
			mk(parProg(q, "PAR-EMIT-only:"+em))
		}
		for _, par := range pg.Pars(2, false) {
			for _, coe := range []string{"", "expr"} {
				if coe != "" && par.HasEnd() {
					continue
				}
				q := par.Clone()
				q.Conc = "expr"
				q.COE = coe
				mk(parProg(q, "PAR"))
			}
		}
		{
			q := pg.Pars(1, false)[0].Clone()
			q.Emitters = "1"
			q.Instrument = true
			q.Items[0].Instrument = true
			mk(parProg(q, "PAR-INS"))
		}
		// user identifiers named like generated ones must keep their meaning
		names := []string{"ctx", "err", "sched", "emitter", "tasks", "task0", "task1", "v1", "v2", "p0", "pred1", "flowInfo", "flowEmitter", "schedInfo", "schedEmitter", "startTime", "parallelInfo", "directiveInfo", "parallelEmitter", "sliceTask0Slice", "sliceTask0Jobs", "mapTask0Jobs", "key", "val", "idx", "recovered", "stacktrace", "taskEmitter", "t"}
		for _, nm := range names {
			p := flowProg(exprConc(pg.Shape("chain2")), "S:shadow="+nm)
			p.F.Shadow = []string{nm}
			mk(p)
			q := pg.Pars(3, false)
			pp := parProg(q[len(q)-2].Clone(), "S:shadow="+nm)
			pp.Par.Conc = "expr"
			pp.F.Shadow = []string{nm}
			mk(pp)
		}
		// an identifier argument whose variable is changed by the evaluation of the next argument
		for _, pos := range []int{0, 1, -1} {
			var bases []*pg.Program
			for _, n := range []string{"chain2", "multi"} {
				bases = append(bases, flowProg(exprConc(pg.Shape(n)), "MUT:"+n))
			}
			if fb := pg.WithPredFallback(pg.Shape("chain2"), nil, 2); len(fb) > 0 {
				for _, f := range fb {
					bases = append(bases, flowProg(exprConc(f), "MUT:fallback"))
				}
			}
			for _, par := range pg.Pars(1, false) {
				if par.Items[0].Kind == "slice" || par.Items[0].Kind == "map" {
					q := par.Clone()
					q.Conc = "expr"
					bases = append(bases, parProg(q, "MUT:par"))
				}
			}
			for _, b := range bases {
				b.F.IdentArg, b.F.IdentPos, b.F.MutAfter = "pv", pos, true
				ps = append(ps, b)
			}
		}
		// the same directives placed so that their arguments straddle the line
		// 9/10 and 99/100 boundaries (positions are part of generated names)
		var padded []*pg.Program
		for _, p := range ps {
			if p.Fam != "shape:chain2" && p.Fam != "shape:multi" && p.Fam != "PAR" && p.Fam != "INS:1" {
				continue
			}
			for _, target := range []int{96, 97, 98, 99} {
				q := *p
				if p.Flow != nil {
					q.Flow = p.Flow.Clone()
				} else {
					q.Par = p.Par.Clone()
				}
				q.F.Pad = padFor(&q, target)
				if q.F.Pad <= 0 {
					continue
				}
				q.Fam = p.Fam + "/line" + fmt.Sprint(target)
				padded = append(padded, &q)
			}
		}
		if !th && len(padded) > 60 {
			padded = padded[:60]
		}
		ps = append(ps, padded...)
		pl.progs = numIDs(ps)
		pl.scen = func(p *pg.Program) []genrt.Scenario {
			sc := base(p, 2)
			sc.COE = true
			out := []genrt.Scenario{sc}
			if p.Fam == "MUT:fallback" {
				for i, t := range p.Flow.Tasks {
					if t.Fallback {
						out = append(out, withDec(sc, []string{pg.TaskID(p.ID, i)}, probe.Fail))
					}
				}
			}
			return out
		}
	case "C18":
		var ps []*pg.Program
		ems := []string{"1", "2", "stack"}
		for _, n := range []string{"single", "chain2"} {
			f := exprConc(pg.Shape(n))
			f.Emitters = "shared3"
			f.Instrument = true
			for i := range f.Tasks {
				f.Tasks[i].Instrument = true
			}
			ps = append(ps, flowProg(f, "INS-shared:"+n))
		}
		{
			q := &pg.Parallel{Items: []pg.Item{{Kind: "task", Err: true, Instrument: true}, {Kind: "task", Ctx: true, Instrument: true}}, Conc: "expr", Emitters: "shared3", Instrument: true}
			ps = append(ps, parProg(q, "INS-shared:par"))
		}
		// the no-op emitter next to a live one: the live one still gets everything, scheduler reports included
		for _, em := range []string{"nopstack", "nop2"} {
			f := exprConc(pg.Shape("single"))
			f.Emitters, f.Instrument = em, true
			f.Tasks[0].Instrument = true
			ps = append(ps, flowProg(f, "INS-nop:single"))
			g := exprConc(pg.Shape("chain2"))
			g.Emitters = em
			ps = append(ps, flowProg(g, "INS-nop:chain2"))
			q := &pg.Parallel{Items: []pg.Item{{Kind: "task", Err: true, Instrument: true}}, Conc: "expr", Emitters: em, Instrument: true}
			ps = append(ps, parProg(q, "INS-nop:par"))
		}
		{
			f := exprConc(pg.Shape("single"))
			f.Emitters = "prestack"
			f.Instrument = true
			f.Tasks[0].Instrument = true
			ps = append(ps, flowProg(f, "INS-prestack:single"))
			g := exprConc(pg.Shape("chain2"))
			g.Emitters = "prestack"
			g.Instrument = true
			ps = append(ps, flowProg(g, "INS-prestack:chain2"))
		}
		for _, n := range []string{"single", "chain2", "fork"} {
			base := pg.Shape(n)
			for _, sub := range subsetsInts(len(base.Tasks)) {
				for _, insFlow := range []bool{true, false} {
					for ei, em := range ems {
						if !th && ei > 0 && (n != "chain2" || len(sub) != len(base.Tasks)) {
							continue
						}
						f := exprConc(base)
						f.Emitters = em
						f.Instrument = insFlow
						for _, i := range sub {
							f.Tasks[i].Instrument = true
						}
						if !insFlow && len(sub) == 0 {
							continue
						}
						ps = append(ps, flowProg(f, "INS:"+n))
					}
				}
			}
		}
		for _, f := range pg.WithPredFallback(pg.Shape("chain2"), []string{"shared"}, 2) {
			g := exprConc(f)
			g.Emitters = "1"
			g.Instrument = true
			for i := range g.Tasks {
				g.Tasks[i].Instrument = true
			}
			ps = append(ps, flowProg(g, "INS-PF"))
			h := g.Clone()
			h.Instrument = false
			ps = append(ps, flowProg(h, "INS-PF-noflow"))
		}
		for _, par := range pg.Pars(2, false) {
			hasTask := false
			for _, it := range par.Items {
				if it.Kind == "task" {
					hasTask = true
				}
			}
			for _, insPar := range []bool{true, false} {
				if !insPar && !hasTask {
					continue
				}
				q := par.Clone()
				q.Conc = "expr"
				q.Emitters = "1"
				q.Instrument = insPar
				for i := range q.Items {
					if q.Items[i].Kind == "task" {
						q.Items[i].Instrument = true
					}
				}
				ps = append(ps, parProg(q, "INS-PAR"))
			}
		}
		pl.progs = numIDs(ps)
		pl.modes = []genMode{{"base", false}}
		pl.scen = func(p *pg.Program) []genrt.Scenario {
			var out []genrt.Scenario
			out = append(out, predCombos(p, base(p, 2))...)
			for _, sub := range subsetsOf(failable(p), 1) {
				out = append(out, withDec(base(p, 2), sub, probe.Fail))
			}
			for i, id := range panickable(p) {
				if i > 2 {
					break
				}
				sc := withDec(base(p, 2), []string{id}, probe.Panic)
				sc.PanicKind = "error"
				out = append(out, sc)
			}
			if p.Fam == "INS:single" || strings.HasPrefix(p.Fam, "INS-nop:") {
				sc := base(p, 1)
				sc.Ticks = 1
				out = append(out, sc)
			}
			// the context is done before the call, or becomes done while it runs
			{
				sc := base(p, 1)
				sc.Cancel = "pre"
				out = append(out, sc)
				if ids := panickable(p); len(ids) > 0 && !isPredID(ids[0]) {
					out = append(out, withDec(base(p, 1), ids[:1], probe.Cancel))
				}
			}
			if strings.HasPrefix(p.Fam, "INS-prestack") {
				sc := base(p, 1)
				sc.Instances = 2
				out = append(out, sc)
			}
			return out
		}
	default:
		return nil, fmt.Errorf("no generated-code plan for %s", prop)
	}
	return pl, nil
}

func hasFallback(f *pg.Flow) bool {
	for _, t := range f.Tasks {
		if t.Fallback {
			return true
		}
	}
	return false
}

func subsetsInts(n int) [][]int {
	var res [][]int
	for m := 0; m < 1<<n; m++ {
		var s []int
		for b := 0; b < n; b++ {
			if m&(1<<b) != 0 {
				s = append(s, b)
			}
		}
		res = append(res, s)
	}
	return res
}

func isPredID(id string) bool { return strings.Contains(id, ".p") }

// padFor returns the number of filler lines that puts the directive call of p
// on the given line of its source file.
func padFor(p *pg.Program, line int) int {
	q := *p
	q.F.Pad = 0
	q.ID = "X0000"
	src := pg.Render(&q, "x", "x")
	cur := 0
	for i, l := range strings.Split(src, "\n") {
		if strings.Contains(l, ".Flow(") || strings.Contains(l, ".Parallel(") {
			cur = i + 1
			break
		}
	}
	if cur == 0 {
		return 0
	}
	// Pad > 0 also adds one blank line
	return line - cur - 1
}

// indepFlow: k independent tasks (no Concurrency option), all results requested.
func indepFlow(k int) *pg.Flow {
	f := &pg.Flow{}
	for i := 0; i < k; i++ {
		f.Types = append(f.Types, pg.SpStruct)
		f.Results = append(f.Results, i)
		f.Tasks = append(f.Tasks, pg.Task{Out: []int{i}, Err: true})
	}
	return f
}

// predCombosTrue: the scenario with every predicate returning true.
func predCombosTrue(p *pg.Program, sc genrt.Scenario) []genrt.Scenario {
	return []genrt.Scenario{withDec(sc, preds(p), probe.True)}
}
