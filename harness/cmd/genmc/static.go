package main

import "verif/harness/mc"

func isStatic(prop string) bool {
	switch prop {
	case "C13", "C14", "C20":
		return true
	}
	return false
}

func staticMain(prop, tier, build, overlay, repo, cffBin string) {
	mc.ToolError("static plan for %s not built yet", prop)
}
