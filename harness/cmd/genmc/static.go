package main

import (
	"encoding/json"
	"fmt"
	"go/ast"
	"go/importer"
	"go/parser"
	"go/scanner"
	"go/token"
	"go/types"
	"os"
	"path/filepath"
	"regexp"
	"strings"
	"time"

	"verif/harness/mc"
	pg "verif/harness/progenum"
)

func isStatic(prop string) bool {
	switch prop {
	case "C13", "C14", "C20":
		return true
	}
	return false
}

// ---------------------------------------------------------------- families

func wellFormedOnly(fs []*pg.Flow) []*pg.Flow {
	var o []*pg.Flow
	for _, f := range fs {
		if ok, _ := f.WellFormed(); ok {
			o = append(o, f)
		}
	}
	return o
}

// graphFamily: every flow structure inside the bound, ill-formed ones included.
func graphFamily(th bool) []*pg.Program {
	var ps []*pg.Program
	for nt := 1; nt <= 2; nt++ {
		for _, f := range pg.EnumFlows(nt, 2, false) {
			ps = append(ps, flowProg(f, fmt.Sprintf("G2/%dtypes", nt)))
		}
	}
	for _, f := range pg.EnumFlows(1, 2, true) {
		if hasPred(f) {
			ps = append(ps, flowProg(f, "G2pred/1types"))
		}
	}
	for _, f := range pg.EnumUnary3(2) {
		ps = append(ps, flowProg(f, "G3/2types"))
	}
	if th {
		for _, f := range pg.EnumFlows(3, 2, false) {
			ps = append(ps, flowProg(f, "G2/3types"))
		}
		for _, f := range pg.EnumUnary3(3) {
			ps = append(ps, flowProg(f, "G3/3types"))
		}
		for _, f := range pg.EnumFlows(2, 2, true) {
			if hasPred(f) {
				ps = append(ps, flowProg(f, "G2pred/2types"))
			}
		}
	}
	// listing orders of well-formed shapes
	for _, n := range []string{"chain2", "multi", "join", "invoke", "pthru"} {
		f := pg.Shape(n)
		f.Conc = "2"
		max := 24
		if th {
			max = 720
		}
		for _, o := range pg.Orders(f, max) {
			g := f.Clone()
			g.Order = o
			ps = append(ps, flowProg(g, "L:"+n))
		}
	}
	for _, n := range []string{"chain2", "chain3", "join", "diamond", "multi", "dup3", "invoke"} {
		f := pg.Shape(n)
		f.Conc = "2"
		for _, o := range pg.TaskOrders(f) {
			g := f.Clone()
			g.Order = o
			ps = append(ps, flowProg(g, "LT:"+n))
		}
	}
	return ps
}

func hasPred(f *pg.Flow) bool {
	for _, t := range f.Tasks {
		if t.Pred != nil {
			return true
		}
	}
	return false
}

const asgHeader = `//go:build cff
// +build cff

package PKG

import (
	"bytes"
	"context"
	"io"

	"go.uber.org/cff"
)

var _ bytes.Buffer
var _ io.Reader

type MyInt_ID int
type Bytes_ID []byte
type S_ID struct{ X int }
type Iface_ID interface{ M() }
type NamedSlice_ID []int
type NamedMap_ID map[string]int

func (*S_ID) M() {}
`

var asgTypes = []string{"int", "MyInt_ID", "string", "*bytes.Buffer", "io.Reader", "io.ReadWriter", "any", "[]byte", "Bytes_ID", "struct{}", "S_ID", "*S_ID", "Iface_ID"}

func comparableKey(t string) bool { return t != "[]byte" && t != "Bytes_ID" }

// assignable decides with go/types whether a value of type from may be
// assigned to a variable of type to (the Go specification's rule).
func assignable(from, to string) bool {
	src := strings.ReplaceAll(asgHeader, "PKG", "p")
	src = strings.ReplaceAll(src, "//go:build cff\n// +build cff\n", "")
	src = strings.ReplaceAll(src, "\t\"go.uber.org/cff\"\n", "")
	src = strings.ReplaceAll(src, "\t\"context\"\n", "")
	src += fmt.Sprintf("\nvar from %s\nvar to %s = from\n", from, to)
	src = strings.ReplaceAll(src, "_ID", "")
	fset := token.NewFileSet()
	f, err := parser.ParseFile(fset, "p.go", src, 0)
	if err != nil {
		mc.ToolError("assignable: %v\n%s", err, src)
	}
	conf := types.Config{Importer: importer.ForCompiler(fset, "source", nil), Error: func(error) {}}
	_, err = conf.Check("p", fset, []*ast.File{f}, nil)
	return err == nil
}

// asgFamily: Slice/Map element-vs-parameter type pairs, both directions.
func asgFamily() []*pg.Program {
	var ps []*pg.Program
	add := func(kind, body string, ok bool) {
		exp := "reject"
		if ok {
			exp = "accept"
		}
		ps = append(ps, &pg.Program{Fam: "ASG:" + kind, Raw: asgHeader + "\nfunc run_ID() error {\n\treturn cff.Parallel(context.Background(),\n\t\t" + body + ",\n\t)\n}\n", Expect: exp})
	}
	for _, e := range asgTypes {
		for _, p := range asgTypes {
			add(fmt.Sprintf("slice elem=%s param=%s", e, p), fmt.Sprintf("cff.Slice(func(i int, v %s) {}, []%s{})", p, e), assignable(e, p))
		}
	}
	for _, e := range asgTypes {
		for _, p := range asgTypes {
			if comparableKey(e) {
				add(fmt.Sprintf("mapkey elem=%s param=%s", e, p), fmt.Sprintf("cff.Map(func(k %s, v int) {}, map[%s]int{})", p, e), assignable(e, p))
			}
			add(fmt.Sprintf("mapval elem=%s param=%s", e, p), fmt.Sprintf("cff.Map(func(k string, v %s) {}, map[string]%s{})", p, e), assignable(e, p))
		}
	}
	// named collection types: element types are those of the underlying type
	add("named-slice elem=int param=int", "cff.Slice(func(i int, v int) {}, NamedSlice_ID{})", true)
	add("named-slice elem=int param=string", "cff.Slice(func(i int, v string) {}, NamedSlice_ID{})", false)
	add("named-map key=string val=int", "cff.Map(func(k string, v int) {}, NamedMap_ID{})", true)
	add("named-map key=string val=int param=(int,int)", "cff.Map(func(k int, v int) {}, NamedMap_ID{})", false)
	return ps
}

// genLocalNames are identifiers the generated code declares itself.
var genLocalNames = []string{"ctx", "err", "sched", "emitter", "tasks", "task0", "task1", "v1", "v2", "p0", "pred1", "flowInfo", "flowEmitter", "schedInfo", "schedEmitter", "startTime", "parallelInfo", "directiveInfo", "parallelEmitter", "sliceTask0Slice", "sliceTask0Jobs", "mapTask0Jobs", "key", "val", "idx", "recovered", "stacktrace", "taskEmitter", "t"}

// specialFamily: spelling and context features, and hand-written corner cases.
func specialFamily() []*pg.Program {
	var ps []*pg.Program
	feat := func(fam string, mod func(p *pg.Program)) {
		for _, n := range []string{"chain2", "multi"} {
			f := pg.Shape(n)
			f.Conc = "2"
			p := flowProg(f, "S:"+fam)
			mod(p)
			ps = append(ps, p)
		}
		q := pg.Pars(3, false)
		par := q[len(q)-2].Clone()
		par.Conc = "2"
		p := parProg(par, "S:"+fam)
		mod(p)
		ps = append(ps, p)
		// a flow whose second task has fallback values (more hoisted expressions, used inside a task closure)
		if fb := pg.WithPredFallback(pg.Shape("chain2"), nil, 1); len(fb) > 0 {
			f := fb[len(fb)-1]
			f.Conc = "2"
			pf := flowProg(f, "S:"+fam)
			mod(pf)
			ps = append(ps, pf)
		}
		// a parallel with instrumented task (uses time/debug in other template paths)
		par2 := &pg.Parallel{Items: []pg.Item{{Kind: "task", Err: true, Ctx: true}, {Kind: "map", Err: true, End: &pg.End{Err: true}}}, Conc: "2"}
		p2 := parProg(par2, "S:"+fam)
		mod(p2)
		ps = append(ps, p2)
	}
	feat("plain", func(p *pg.Program) {})
	feat("ctx-alias", func(p *pg.Program) {
		p.F.CtxAlias = "xctx"
		if p.Flow != nil {
			p.Flow.Tasks[0].Ctx = true
		}
	})
	feat("time-plain", func(p *pg.Program) { p.F.TimeImp = "plain" })
	feat("time-alias", func(p *pg.Program) { p.F.TimeImp = "alias" })
	feat("time-other", func(p *pg.Program) { p.F.TimeImp = "other" })
	feat("debug-other", func(p *pg.Program) { p.F.DebugImp = "other" })
	feat("debug-dirname", func(p *pg.Program) { p.F.DebugImp = "dirname" })
	feat("time-dirname", func(p *pg.Program) { p.F.TimeImp = "dirname" })
	feat("cff-alias", func(p *pg.Program) { p.F.CffAlias = "c" })
	feat("paren", func(p *pg.Program) { p.F.Paren = true })
	feat("surround", func(p *pg.Program) { p.F.Surround = true })
	for _, enc := range []string{"closure", "nested2", "generic", "method", "defer"} {
		enc := enc
		feat("enclose="+enc, func(p *pg.Program) { p.F.Enclose = enc })
	}
	for _, sh := range []string{"context", "cff", "time", "debug", "ctx", "err", "sched", "emitter", "tasks", "task0", "task1", "v1", "v2", "p0", "pred1", "flowInfo", "flowEmitter", "schedInfo", "schedEmitter", "startTime", "parallelInfo", "directiveInfo", "parallelEmitter", "sliceTask0Slice", "sliceTask0Jobs", "mapTask0Jobs", "key", "val", "idx", "recovered", "stacktrace", "taskEmitter", "t"} {
		sh := sh
		feat("shadow="+sh, func(p *pg.Program) {
			p.F.Shadow = []string{sh}
			if p.Par != nil {
				p.Par.Conc = "expr"
			}
			// the user's own code must stay type-correct: it cannot name a
			// package through an identifier it shadows
			if sh == "context" {
				p.F.CtxAlias = "xctx"
			}
			if sh == "cff" {
				p.F.CffAlias = "c"
			}
		})
	}
	// directive arguments that are bare identifiers named like locals of the generated code
	for _, nm := range genLocalNames {
		nm := nm
		for _, pos := range []int{0, -1} {
			pos := pos
			feat(fmt.Sprintf("identarg=%s@%d", nm, pos), func(p *pg.Program) {
				p.F.IdentArg, p.F.IdentPos = nm, pos
				if p.Par != nil {
					p.Par.Conc = "expr"
				}
				if p.Flow != nil {
					p.Flow.Conc = "expr"
				}
			})
		}
	}
	// the variable behind a cff.Results pointer is named like a local of the generated code
	for _, nm := range genLocalNames {
		for _, n := range []string{"chain2", "multi"} {
			f := pg.Shape(n)
			f.Conc = "2"
			p := flowProg(f, "S:resultname="+nm)
			p.F.ResultName = nm
			ps = append(ps, p)
		}
	}
	for _, sp := range []string{pg.SpPtr, pg.SpBasic, pg.SpSlice, pg.SpMap, pg.SpGeneric, pg.SpExt} {
		f := pg.Shape("multi")
		for i := range f.Types {
			f.Types[i] = sp
		}
		ps = append(ps, flowProg(f, "S:types="+sp))
	}
	for _, form := range []string{"func", "method", "var"} {
		f := pg.Shape("join")
		for i := range f.Tasks {
			f.Tasks[i].Form = form
		}
		ps = append(ps, flowProg(f, "S:form="+form))
	}
	raw := func(fam, expect, body string) {
		ps = append(ps, &pg.Program{Fam: "S:" + fam, Expect: expect, Raw: "//go:build cff\n// +build cff\n\npackage PKG\n\nimport (\n\t\"context\"\n\n\t\"go.uber.org/cff\"\n)\n\n" + body})
	}
	raw("nested-directive", "accept", `func run_ID(ctx context.Context) (int, error) {
	var out int
	err := cff.Flow(ctx,
		cff.Results(&out),
		cff.Task(func() (int, error) {
			var inner int
			err := cff.Flow(ctx,
				cff.Results(&inner),
				cff.Task(func() int { return 42 }),
			)
			return inner, err
		}),
	)
	return out, err
}
`)
	raw("invoke-nonconst", "", `func run_ID(ctx context.Context, b bool) error {
	return cff.Flow(ctx,
		cff.Task(func() error { return nil }, cff.Invoke(b)),
	)
}
`)
	raw("two-directives-one-func", "accept", `func run_ID(ctx context.Context) (a int, b string, err error) {
	if err = cff.Flow(ctx, cff.Results(&a), cff.Task(func() int { return 1 })); err != nil {
		return
	}
	err = cff.Parallel(ctx, cff.Task(func() { b = "x" }))
	return
}
`)
	raw("directive-in-var-init", "accept", `var v_ID = func() error {
	var x int
	return cff.Flow(context.Background(), cff.Results(&x), cff.Task(func() int { return 1 }))
}()
`)
	raw("directive-in-init", "accept", `func init() {
	var x int
	_ = cff.Flow(context.Background(), cff.Results(&x), cff.Task(func() int { return 1 }))
}
`)
	raw("directive-in-go-stmt", "accept", `func run_ID(ctx context.Context) {
	done := make(chan error, 1)
	go func() { done <- cff.Parallel(ctx, cff.Task(func() {})) }()
	<-done
}
`)
	raw("nonconst-concurrency-and-coe", "accept", `func run_ID(ctx context.Context, n int, c bool) error {
	return cff.Parallel(ctx, cff.Concurrency(n*2), cff.ContinueOnError(c && n > 1), cff.Task(func() error { return nil }))
}
`)
	raw("params-use-err-variable", "accept", `func run_ID(ctx context.Context) (string, error) {
	var out string
	err := error(nil)
	n := 3
	if err == nil {
		err = cff.Flow(ctx, cff.Params(n), cff.Results(&out), cff.Task(func(i int) string { return "x" }))
	}
	return out, err
}
`)
	rawNoTag := func(fam, body string) {
		ps = append(ps, &pg.Program{Fam: "S:" + fam, Expect: "reject", Raw: "package PKG\n\nimport (\n\t\"context\"\n\n\t\"go.uber.org/cff\"\n)\n\n" + body})
	}
	// files without the cff constraint: must be rejected with diagnostics, whatever else is wrong with them
	rawNoTag("untagged-valid-flow", `func run_ID(ctx context.Context) (int, error) {
	var x int
	err := cff.Flow(ctx, cff.Results(&x), cff.Task(func() int { return 1 }))
	return x, err
}
`)
	rawNoTag("untagged-empty-flow", `func run_ID(ctx context.Context) error {
	return cff.Flow(ctx)
}
`)
	rawNoTag("untagged-empty-parallel", `func run_ID(ctx context.Context) error {
	return cff.Parallel(ctx)
}
`)
	rawNoTag("untagged-invalid-and-valid", `func run_ID(ctx context.Context) error {
	if err := cff.Flow(ctx, cff.Concurrency(2)); err != nil {
		return err
	}
	return cff.Parallel(ctx, cff.Task(func() {}))
}
`)
	raw("empty-flow", "reject", `func run_ID(ctx context.Context) error {
	return cff.Flow(ctx)
}
`)
	raw("predicate-named-bool", "reject", `type enabled_ID bool

func run_ID(ctx context.Context, on enabled_ID) (int, error) {
	var x int
	err := cff.Flow(ctx, cff.Results(&x),
		cff.Task(func() int { return 1 }, cff.Predicate(func() enabled_ID { return on })),
	)
	return x, err
}
`)
	raw("params-same-unnamed-type-twice", "reject", `func run_ID(ctx context.Context, first []string, second []string) (int, error) {
	var x int
	err := cff.Flow(ctx, cff.Params(first, second), cff.Results(&x), cff.Task(func(s []string) int { return len(s) }))
	return x, err
}
`)
	raw("params-same-map-type-twice", "reject", `func run_ID(ctx context.Context, a map[string]int, b map[string]int) (int, error) {
	var x int
	err := cff.Flow(ctx, cff.Params(a, b), cff.Results(&x), cff.Task(func(m map[string]int) int { return len(m) }))
	return x, err
}
`)
	raw("types-spelled-differently", "accept", `func run_ID(ctx context.Context) (int, error) {
	var x int
	err := cff.Flow(ctx, cff.Results(&x),
		cff.Task(func() func(delta int) int { return func(d int) int { return d + 1 } }),
		cff.Task(func() any { return 2 }),
		cff.Task(func(f func(int) int, v interface{}) int { return f(v.(int)) }),
	)
	return x, err
}
`)
	raw("very-long-line", "accept", "const blob_ID = \""+strings.Repeat("x", 70000)+"\"\n\n"+`func run_ID(ctx context.Context) (int, error) {
	var x int
	err := cff.Flow(ctx, cff.Results(&x), cff.Task(func() int { return len(blob_ID) }))
	return x, err
}

func after_ID() int { return len(blob_ID) }
`)
	raw("results-same-type-twice", "accept", `func run_ID(ctx context.Context) (int, int, error) {
	var x, y int
	err := cff.Flow(ctx, cff.Results(&x, &y), cff.Task(func() int { return 3 }))
	return x, y, err
}
`)
	rawImp := func(fam, expect, imports, body string) {
		ps = append(ps, &pg.Program{Fam: "S:" + fam, Expect: expect, Raw: "//go:build cff\n// +build cff\n\npackage PKG\n\nimport (\n\t\"context\"\n\n\t\"go.uber.org/cff\"\n" + imports + ")\n\n" + body})
	}
	// types that the file never names: they come from the signatures of another package's functions
	rawImp("indirect-type:path-v2", "accept", "\t\"MOD/ext/backend\"\n", `func run_ID(ctx context.Context) (int, error) {
	var n int
	err := cff.Flow(ctx, cff.Results(&n), cff.Task(backend.Fetch), cff.Task(backend.Describe))
	return n, err
}
`)
	rawImp("indirect-type:path-v2-two-types", "accept", "\t\"MOD/ext/backend\"\n", `func run_ID(ctx context.Context) (int, int32, error) {
	var (
		n int
		m int32
	)
	err := cff.Flow(ctx, cff.Results(&n, &m),
		cff.Task(backend.Fetch), cff.Task(backend.Describe),
		cff.Task(backend.Fetch2), cff.Task(backend.Describe2))
	return n, m, err
}
`)
	rawImp("indirect-type:dir-not-ident", "accept", "\t\"MOD/ext/backend\"\n", `func run_ID(ctx context.Context) (int64, error) {
	var n int64
	err := cff.Flow(ctx, cff.Results(&n), cff.Task(backend.Item), cff.Task(backend.Weigh))
	return n, err
}
`)
	rawImp("indirect-type:pkg-named-context", "accept", "\t\"MOD/ext/backend\"\n", `func run_ID(ctx context.Context) (uint8, error) {
	var n uint8
	err := cff.Flow(ctx, cff.Results(&n), cff.Task(backend.Token), cff.Task(backend.Spend))
	return n, err
}
`)
	rawImp("indirect-type:all", "accept", "\t\"MOD/ext/backend\"\n", `func run_ID(ctx context.Context) (int, int64, uint8, error) {
	var (
		a int
		b int64
		c uint8
	)
	err := cff.Flow(ctx, cff.Results(&a, &b, &c),
		cff.Task(backend.Fetch), cff.Task(backend.Describe),
		cff.Task(backend.Item), cff.Task(backend.Weigh),
		cff.Task(backend.Token), cff.Task(backend.Spend))
	return a, b, c, err
}
`)
	rawImp("indirect-type:parallel-slice", "accept", "\t\"MOD/ext/backend\"\n", `func run_ID(ctx context.Context) error {
	it := backend.Item()
	s := []struct{ N int }{{1}}
	_ = it
	return cff.Parallel(ctx, cff.Slice(func(i int, v struct{ N int }) { _ = backend.Weigh }, s))
}
`)
	raw("slice-noindex-sliceend", "accept", `func run_ID(ctx context.Context, s []int) error {
	return cff.Parallel(ctx, cff.Slice(func(v int) {}, s, cff.SliceEnd(func() {})))
}
`)
	return ps
}

// staticProgs returns the program list of a static property check.
func staticProgs(prop string, th bool) []*pg.Program {
	var ps []*pg.Program
	switch prop {
	case "C14":
		ps = append(ps, graphFamily(th)...)
		ps = append(ps, asgFamily()...)
		for _, p := range specialFamily() {
			if p.Raw != "" && p.Expect != "" && !strings.Contains(p.Fam, "nested-directive") {
				ps = append(ps, p)
			}
		}
	case "C13", "C20":
		for _, p := range graphFamily(false) {
			if p.Flow != nil {
				if ok, _ := p.Flow.WellFormed(); ok {
					ps = append(ps, p)
				}
			}
		}
		ps = append(ps, specialFamily()...)
		// the programs of the run-time families
		for _, q := range []string{"C04", "C10", "C11", "C18"} {
			pl, err := planFor(q, "quick")
			if err == nil {
				for _, p := range pl.progs {
					p.Fam = q + ":" + p.Fam
					ps = append(ps, p)
				}
			}
		}
		for _, p := range asgFamily() {
			if p.Expect == "accept" {
				ps = append(ps, p)
			}
		}
	}
	seen := map[string]bool{}
	var out []*pg.Program
	for _, p := range ps {
		k := progKey(p)
		if p.Raw != "" {
			k += p.Raw
		}
		if seen[k] {
			continue
		}
		seen[k] = true
		out = append(out, p)
	}
	for i, p := range out {
		p.ID = fmt.Sprintf("Z%05d", i)
	}
	return out
}

// ---------------------------------------------------------------- oracles

var posDiag = regexp.MustCompile(`[A-Za-z0-9_./-]+\.go:\d+:\d+`)

var directiveNames = map[string]bool{"Flow": true, "Parallel": true, "Params": true, "Results": true, "WithEmitter": true, "Task": true, "InstrumentFlow": true,
	"Concurrency": true, "ContinueOnError": true, "FallbackWith": true, "Predicate": true, "Instrument": true, "Invoke": true, "InstrumentParallel": true,
	"Tasks": true, "Slice": true, "SliceEnd": true, "Map": true, "MapEnd": true}

// leftoverDirectives scans a generated file for calls to code-generation directives.
func leftoverDirectives(path string) ([]string, error) {
	fset := token.NewFileSet()
	f, err := parser.ParseFile(fset, path, nil, 0)
	if err != nil {
		return nil, err
	}
	cffName := ""
	for _, imp := range f.Imports {
		if strings.Trim(imp.Path.Value, `"`) == "go.uber.org/cff" {
			cffName = "cff"
			if imp.Name != nil {
				cffName = imp.Name.Name
			}
		}
	}
	var found []string
	if cffName == "" {
		return nil, nil
	}
	ast.Inspect(f, func(n ast.Node) bool {
		call, ok := n.(*ast.CallExpr)
		if !ok {
			return true
		}
		sel, ok := call.Fun.(*ast.SelectorExpr)
		if !ok {
			return true
		}
		id, ok := sel.X.(*ast.Ident)
		if ok && id.Name == cffName && id.Obj == nil && directiveNames[sel.Sel.Name] {
			found = append(found, fmt.Sprintf("%s.%s at %s", cffName, sel.Sel.Name, fset.Position(call.Pos())))
		}
		return true
	})
	return found, nil
}

// tokenStream returns the comment-free token stream of a Go file.
func tokenStream(path string) (string, error) {
	src, err := os.ReadFile(path)
	if err != nil {
		// output that does not compile (a C13 matter) was set aside by buildAll
		src, err = os.ReadFile(path + ".broken")
	}
	if err != nil {
		return "", err
	}
	fset := token.NewFileSet()
	file := fset.AddFile(path, fset.Base(), len(src))
	var s scanner.Scanner
	s.Init(file, src, nil, 0)
	var b strings.Builder
	for {
		_, tok, lit := s.Scan()
		if tok == token.EOF {
			break
		}
		if tok == token.SEMICOLON && lit == "\n" {
			b.WriteString(";\n")
			continue
		}
		if lit != "" {
			b.WriteString(lit)
		} else {
			b.WriteString(tok.String())
		}
		b.WriteByte(' ')
	}
	return b.String(), nil
}

func staticMain(prop, tier, build, overlay, repo, cffBin string) {
	th := tier == "thorough"
	rep := mc.NewReporter(prop)
	progs := staticProgs(prop, th)
	modes := []genMode{{"base", false}}
	if prop == "C13" {
		modes = []genMode{{"base", false}, {"source-map", false}, {"base", true}, {"source-map", true}}
	}
	if prop == "C20" {
		modes = []genMode{{"base", false}, {"source-map", false}}
	}
	evaluations, distinct := 0, 0
	accepted, rejectedN := 0, 0
	var samples []any
	famCount := map[string]int{}
	sets := map[string]*genSet{}
	type modeRun struct {
		m     genMode
		progs []*pg.Program
	}
	var runs []modeRun
	for _, m := range modes {
		runs = append(runs, modeRun{m, progs})
	}
	if prop == "C13" {
		// modifier mode is a mode of the tool too: the programs it supports
		runs = append(runs, modeRun{genMode{"modifier", false}, modFamily(th)})
	}
	for _, mr := range runs {
		m, progs := mr.m, mr.progs
		name := m.mode
		if m.autoInst {
			name += "+auto"
		}
		g := &genSet{dir: filepath.Join(build, "gen-"+name), mode: m.mode, autoInst: m.autoInst, progs: progs, testFile: prop == "C14"}
		g.write(repo, mc.VerifDir())
		g.runCff(cffBin, mc.Workers())
		sets[name] = g
		// compile everything that was written (C13) - also needed to know that accepted programs are usable
		g.broken = map[string]string{}
		if prop != "C14" || true {
			g.buildAll()
		}
		for _, p := range progs {
			evaluations++
			out := g.outOf(p.ID)
			srcBase := filepath.Base(g.srcFile[p.ID])
			written := g.written[p.ID]
			named := strings.Contains(out.stderr, srcBase+":")
			scj, _ := json.Marshal(p)
			key := progKey(p) + " mode=" + name
			report := func(pr, msg string) {
				rep.Report(&mc.Replay{Property: pr, Engine: "genmc-static", Key: key, Scenario: scj, Message: msg,
					Note: "input: " + g.srcFile[p.ID]})
			}
			if strings.Contains(out.stderr, "panic:") || strings.Contains(out.stderr, "goroutine ") {
				if named || !written {
					report("C13", "the cff tool died with a Go panic: "+firstLines(grepPanic(out.stderr), 4))
					continue
				}
			}
			want := ""
			if p.Flow != nil {
				if ok, _ := p.Flow.WellFormed(); ok {
					want = "accept"
				} else {
					want = "reject"
				}
			} else if p.Par != nil {
				want = "accept"
			} else {
				want = p.Expect
			}
			isAccepted := written && !named
			if isAccepted {
				accepted++
			} else {
				rejectedN++
			}
			famCount[p.Fam]++
			if prop == "C14" {
				switch {
				case want == "accept" && !isAccepted:
					report("C14", "cff rejected a well-formed program: "+firstLines(grepFile(out.stderr, srcBase), 3))
				case want == "reject" && isAccepted:
					_, why := wfReason(p)
					report("C14", "cff accepted an ill-formed program ("+why+")")
				case want == "reject":
					if written {
						report("C14", "cff reported an error for the file but still wrote output for it")
					}
					if !named {
						report("C14", "cff wrote no output but printed no diagnostic naming the file")
					}
					if out.exit == 0 {
						report("C14", "cff rejected the file but exited with status 0")
					}
				}
			}
			if prop == "C13" {
				if !isAccepted && named {
					// rejected with diagnostics: must be positioned and non-zero
					if out.exit == 0 {
						report("C13", "cff printed errors for the file but exited 0")
					}
					if !posDiag.MatchString(grepFile(out.stderr, srcBase)) {
						report("C13", "diagnostic without file:line:col position: "+firstLines(grepFile(out.stderr, srcBase), 2))
					}
				}
				if isAccepted {
					if msg, bad := g.broken[p.ID]; bad {
						report("C13", "cff exited successfully for this file but its output does not compile: "+msg)
					} else {
						left, err := leftoverDirectives(g.genFile[p.ID])
						if err != nil {
							report("C13", "output does not parse: "+err.Error())
						} else if len(left) > 0 {
							report("C13", "unexpanded directive call remains in the output: "+strings.Join(left, ", "))
						}
					}
				}
			}
			if len(samples) < 5 && (evaluations%997 == 1) {
				samples = append(samples, map[string]any{"program": progKey(p), "mode": name, "expected": want, "accepted": isAccepted, "source_file": filepath.Base(g.srcFile[p.ID])})
			}
		}
	}
	if prop == "C20" {
		a, b := sets["base"], sets["source-map"]
		for _, p := range progs {
			if !a.accepted[p.ID] || !b.accepted[p.ID] {
				if a.accepted[p.ID] != b.accepted[p.ID] {
					scj, _ := json.Marshal(p)
					rep.Report(&mc.Replay{Property: "C20", Engine: "genmc-static", Key: progKey(p), Scenario: scj, Message: "base and source-map modes disagree on accepting the program"})
				}
				continue
			}
			distinct++
			ta, e1 := tokenStream(a.genFile[p.ID])
			tb, e2 := tokenStream(b.genFile[p.ID])
			if e1 != nil || e2 != nil {
				mc.ToolError("C20: %v %v", e1, e2)
			}
			if ta != tb {
				scj, _ := json.Marshal(p)
				rep.Report(&mc.Replay{Property: "C20", Engine: "genmc-static", Key: progKey(p), Scenario: scj,
					Message: "source-map output differs from base output beyond comments/line directives: " + firstDiff(ta, tb)})
			}
		}
	}
	if prop == "C13" {
		evaluations += c13MultiPackage(build, repo, cffBin, rep)
	}
	var modCov map[string]any
	if prop == "C20" {
		modCov = c20Modifier(tier, build, overlay, repo, cffBin, rep)
	}
	nontrivial := 0
	for range famCount {
		nontrivial++
	}
	wall := time.Since(rep.Start).Seconds()
	if len(samples) == 0 {
		samples = append(samples, map[string]any{"note": "no program"})
	}
	ev := &mc.Evidence{PropertyID: prop, Tier: tier, Seed: mc.Seed(), Level: "model_checking", WallS: wall, Violations: rep.Violations,
		Coverage: map[string]any{
			"evaluations":                   evaluations,
			"distinct_nontrivial":           len(progs),
			"states":                        len(progs),
			"transitions":                   evaluations,
			"traces_validated_against_impl": evaluations,
			"samples":                       samples,
			"exhaustive":                    true,
			"programs":                      len(progs),
			"modes":                         len(modes),
			"accepted":                      accepted,
			"rejected":                      rejectedN,
			"families":                      famCount,
			"compared_pairs":                distinct,
			"known_findings_hit":            rep.KnownHits,
			"rule":                          "bounded-exhaustive enumeration of abstract programs (all flow structures with <=2 tasks over <=2 (thorough 3) types incl. ill-formed ones, all 3-task unary flows, all listing orders of named shapes, the Slice/Map assignability lattice, spelling/context features); each is rendered to Go and processed by the cff binary built from the working tree; states = distinct programs, transitions = (program, mode) evaluations; a program is non-trivial/distinct by its structural key modulo type renaming and task order",
		},
		Assumptions: []string{"reference well-formedness rules are those of cff's documentation (DESIGN.md §4.3)", "go/types decides assignability and compilation"}}
	for k, v := range modCov {
		ev.Coverage[k] = v
	}
	if modCov != nil {
		ev.Coverage["rule"] = ev.Coverage["rule"].(string) + "; modifier mode: the MOD family (flows from Params, Results, Concurrency and plain Tasks: named shapes, type spellings, task forms, import situations) is generated in base and in modifier mode, both are compiled and explored over all interleavings for every single failing and single panicking task; every execution of the modifier output is judged by the same reference oracles and the set of observable outcomes per scenario must equal the base-mode set"
		ev.WallS = time.Since(rep.Start).Seconds()
		ev.Violations = rep.Violations
	}
	if err := mc.WriteEvidence(ev); err != nil {
		mc.ToolError("evidence: %v", err)
	}
	fmt.Printf("%s %s: %d programs x %d modes, %d accepted / %d rejected evaluations, %.1fs\n", prop, tier, len(progs), len(modes), accepted, rejectedN, wall)
	os.Exit(rep.ExitCode())
}

func wfReason(p *pg.Program) (bool, string) {
	if p.Flow != nil {
		return p.Flow.WellFormed()
	}
	return false, p.Fam
}

func grepPanic(s string) string {
	i := strings.Index(s, "panic:")
	if i < 0 {
		i = strings.Index(s, "goroutine ")
	}
	if i < 0 {
		return s
	}
	return truncate(s[i:], 600)
}

func firstDiff(a, b string) string {
	la, lb := strings.Split(a, "\n"), strings.Split(b, "\n")
	for i := 0; i < len(la) && i < len(lb); i++ {
		if la[i] != lb[i] {
			return fmt.Sprintf("statement %d: base %q vs source-map %q", i, truncate(la[i], 120), truncate(lb[i], 120))
		}
	}
	return fmt.Sprintf("lengths differ: %d vs %d statements", len(la), len(lb))
}

// buildAll compiles every package of the module (without the cff tag);
// generated files that do not compile are recorded in g.broken and removed.
func (g *genSet) buildAll() {
	for attempt := 0; attempt < 60; attempt++ {
		var pk []string
		for _, p := range g.pkgs() {
			pk = append(pk, "./"+p)
		}
		args := append([]string{"build", "-gcflags=-e"}, pk...)
		_, se, code := run(g.dir, goEnv, "go", args...)
		if code == 0 {
			return
		}
		removed := 0
		for id, msg := range g.blame(se) {
			if _, dup := g.broken[id]; !dup && g.written[id] {
				g.broken[id] = msg
				os.Rename(g.genFile[id], g.genFile[id]+".broken")
				removed++
			}
		}
		if removed == 0 {
			mc.ToolError("building generated packages failed and no generated file is to blame:\n%s", truncate(se, 3000))
		}
	}
	mc.ToolError("building generated packages did not converge")
}

// c13MultiPackage: one invocation of the tool over several packages of a
// module (cff ./...), two of which contain a cff file with the same base name.
// Every file with a directive must get its output and the module must compile
// without the cff tag.
func c13MultiPackage(build, repo, cffBin string, rep *mc.Reporter) int {
	n := 0
	for _, mode := range []string{"base", "source-map"} {
		root := filepath.Join(build, "multipkg-"+mode)
		os.RemoveAll(root)
		writeGoMod(root, repo)
		for name, c := range fsFiles {
			writeFile(filepath.Join(root, "fsp", name), c)
		}
		for name, c := range fsOther {
			writeFile(filepath.Join(root, "fsq", name), c)
		}
		// a third package whose file names equal those of the first
		for _, name := range []string{"a.go", "xa.go"} {
			writeFile(filepath.Join(root, "fsr", name), strings.Replace(fsFiles[name], "package fsp", "package fsr", 1))
		}
		_, se, code := run(root, goEnv, cffBin, "-genmode="+mode, "./...")
		n++
		report := func(msg string) {
			scj, _ := json.Marshal(map[string]string{"invocation": "cff -genmode=" + mode + " ./...", "packages": "fsp fsq fsr"})
			rep.Report(&mc.Replay{Property: "C13", Engine: "genmc-static", Key: "multipkg:" + mode, Scenario: scj, Message: msg})
		}
		if strings.Contains(se, "panic:") || strings.Contains(se, "goroutine ") {
			report("the cff tool died with a Go panic on a multi-package invocation: " + firstLines(grepPanic(se), 3))
			continue
		}
		if code != 0 {
			report("cff ./... failed on valid packages: " + firstLines(se, 3))
			continue
		}
		want := []string{"fsp/a_gen.go", "fsp/b.v2_gen.go", "fsp/xa_gen.go", "fsp/f_testutil_gen.go", "fsp/d_gen_test.go", "fsq/a_gen.go", "fsr/a_gen.go", "fsr/xa_gen.go"}
		for _, w := range want {
			if _, err := os.Stat(filepath.Join(root, w)); err != nil {
				report("cff ./... exited successfully but wrote no " + w + " (a cff file of one package was skipped)")
			}
		}
		if _, se, code := run(root, goEnv, "go", "build", "./..."); code != 0 {
			report("cff ./... exited successfully but the module does not compile without the cff tag: " + firstLines(se, 3))
		}
	}
	return n
}
