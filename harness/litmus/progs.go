// Package litmus holds small ordinary Go programs whose complete outcome sets
// are known from the Go specification and memory model. They bind the vs shim
// to Go: the rewritten copy (package litmusvs, produced by the real rewriter)
// is explored exhaustively and must yield exactly the expected set; the native
// copy is run many times and every native outcome must be in that set.
package litmus

import (
	"context"
	"fmt"
	"runtime"
	"sort"
	"strings"
	"sync"
	"time"
)

// Prog is one litmus program.
type Prog struct {
	Name     string
	Run      func(ctx context.Context, cancel func()) string
	Expected []string
	Native   bool // safe to run natively (cannot deadlock)
	Ticks    int
}

func join(xs []string) string { sort.Strings(xs); return strings.Join(xs, ",") }

// Progs is the suite.
var Progs = []Prog{
	{Name: "unbuffered-pingpong", Native: true, Expected: []string{"1,2"}, Run: func(ctx context.Context, cancel func()) string {
		a, b := make(chan int), make(chan int)
		go func() { v := <-a; b <- v + 1 }()
		a <- 1
		return fmt.Sprintf("1,%d", <-b)
	}},
	{Name: "buffered-cap1-fifo", Native: true, Expected: []string{"12"}, Run: func(ctx context.Context, cancel func()) string {
		c := make(chan int, 1)
		done := make(chan string)
		go func() { s := ""; for v := range c { s += fmt.Sprint(v) }; done <- s }()
		c <- 1
		c <- 2
		close(c)
		return <-done
	}},
	{Name: "two-senders-order", Native: true, Expected: []string{"12", "21"}, Run: func(ctx context.Context, cancel func()) string {
		c := make(chan int)
		go func() { c <- 1 }()
		go func() { c <- 2 }()
		x, y := <-c, <-c
		return fmt.Sprintf("%d%d", x, y)
	}},
	{Name: "buffered-cap2-two-senders", Native: true, Expected: []string{"12", "21"}, Run: func(ctx context.Context, cancel func()) string {
		c := make(chan int, 2)
		d := make(chan bool)
		go func() { c <- 1; d <- true }()
		go func() { c <- 2; d <- true }()
		<-d
		<-d
		return fmt.Sprint(<-c) + fmt.Sprint(<-c)
	}},
	{Name: "select-two-ready", Native: true, Expected: []string{"a", "b"}, Run: func(ctx context.Context, cancel func()) string {
		a, b := make(chan int, 1), make(chan int, 1)
		a <- 1
		b <- 1
		select {
		case <-a:
			return "a"
		case <-b:
			return "b"
		}
	}},
	{Name: "select-default-empty", Native: true, Expected: []string{"default"}, Run: func(ctx context.Context, cancel func()) string {
		a := make(chan int, 1)
		select {
		case <-a:
			return "a"
		default:
			return "default"
		}
	}},
	{Name: "select-default-ready", Native: true, Expected: []string{"a"}, Run: func(ctx context.Context, cancel func()) string {
		a := make(chan int, 1)
		a <- 7
		select {
		case <-a:
			return "a"
		default:
			return "default"
		}
	}},
	{Name: "select-default-vs-unbuffered-sender", Native: true, Expected: []string{"default", "got"}, Run: func(ctx context.Context, cancel func()) string {
		a := make(chan int)
		go func() {
			select {
			case a <- 1:
			case <-time.After(time.Hour):
			}
		}()
		select {
		case <-a:
			return "got"
		default:
			// unblock the sender so it does not leak
			go func() { <-a }()
			return "default"
		}
	}, Ticks: 0},
	{Name: "close-wakes-all", Native: true, Expected: []string{"false,false"}, Run: func(ctx context.Context, cancel func()) string {
		c := make(chan int)
		r := make(chan bool, 2)
		for i := 0; i < 2; i++ {
			go func() { _, ok := <-c; r <- ok }()
		}
		close(c)
		return fmt.Sprintf("%v,%v", <-r, <-r)
	}},
	{Name: "send-on-closed-panics", Native: true, Expected: []string{"panic: send on closed channel"}, Run: func(ctx context.Context, cancel func()) (s string) {
		c := make(chan int, 1)
		close(c)
		defer func() { s = fmt.Sprint("panic: ", recover()) }()
		c <- 1
		return "no panic"
	}},
	{Name: "close-closed-panics", Native: true, Expected: []string{"panic: close of closed channel"}, Run: func(ctx context.Context, cancel func()) (s string) {
		c := make(chan int, 1)
		close(c)
		defer func() { s = fmt.Sprint("panic: ", recover()) }()
		close(c)
		return "no panic"
	}},
	{Name: "nil-arm-never", Native: true, Expected: []string{"b"}, Run: func(ctx context.Context, cancel func()) string {
		var a chan int
		b := make(chan int, 1)
		b <- 1
		select {
		case <-a:
			return "a"
		case a <- 1:
			return "a-send"
		case <-b:
			return "b"
		}
	}},
	{Name: "range-closed-buffered-drains", Native: true, Expected: []string{"123"}, Run: func(ctx context.Context, cancel func()) string {
		c := make(chan int, 3)
		c <- 1
		c <- 2
		c <- 3
		close(c)
		s := ""
		for v := range c {
			s += fmt.Sprint(v)
		}
		return s
	}},
	{Name: "recv-buffered-before-closed", Native: true, Expected: []string{"1true0false"}, Run: func(ctx context.Context, cancel func()) string {
		c := make(chan int, 1)
		c <- 1
		close(c)
		v, ok := <-c
		w, ok2 := <-c
		return fmt.Sprintf("%d%v%d%v", v, ok, w, ok2)
	}},
	{Name: "ctx-cancel-before-done", Native: true, Expected: []string{"done:context canceled"}, Run: func(ctx context.Context, cancel func()) string {
		cancel()
		<-ctx.Done()
		return "done:" + ctx.Err().Error()
	}},
	{Name: "ctx-cancel-race-with-work", Native: true, Expected: []string{"cancelled", "work"}, Run: func(ctx context.Context, cancel func()) string {
		w := make(chan int)
		go func() { cancel() }()
		go func() {
			select {
			case w <- 1:
			case <-ctx.Done():
			}
		}()
		select {
		case <-w:
			return "work"
		case <-ctx.Done():
			return "cancelled"
		}
	}},
	{Name: "ctx-err-observes-cancel", Native: true, Expected: []string{"<nil>", "context canceled"}, Run: func(ctx context.Context, cancel func()) string {
		d := make(chan bool)
		go func() { cancel(); d <- true }()
		e := ctx.Err()
		<-d
		return fmt.Sprint(e)
	}},
	{Name: "goexit-deferred-send", Native: true, Expected: []string{"deferred"}, Run: func(ctx context.Context, cancel func()) string {
		c := make(chan string, 1)
		go func() {
			defer func() { c <- "deferred" }()
			runtime.Goexit()
		}()
		return <-c
	}},
	{Name: "goexit-respawn", Native: true, Expected: []string{"second"}, Run: func(ctx context.Context, cancel func()) string {
		c := make(chan string)
		var w func(first bool)
		w = func(first bool) {
			defer func() {
				if first {
					go w(false)
				}
			}()
			if first {
				runtime.Goexit()
			}
			c <- "second"
		}
		go w(true)
		return <-c
	}},
	{Name: "deadlock-unbuffered-no-receiver", Native: false, Expected: []string{"DEADLOCK"}, Run: func(ctx context.Context, cancel func()) string {
		c := make(chan int)
		c <- 1
		return "sent"
	}},
	{Name: "lost-result-cap-too-small", Native: false, Expected: []string{"LEAK"}, Run: func(ctx context.Context, cancel func()) string {
		// three producers, buffer of one, consumer takes only one: a producer is stuck for good
		c := make(chan int, 1)
		go func() { c <- 1 }()
		go func() { c <- 2 }()
		go func() { c <- 3 }()
		<-c
		return "ok"
	}},
	{Name: "buffer-absorbs-late-result", Native: true, Expected: []string{"ok"}, Run: func(ctx context.Context, cancel func()) string {
		// the donec pattern: capacity equal to the number of producers never blocks them
		c := make(chan int, 2)
		go func() { c <- 1 }()
		go func() { c <- 2 }()
		<-c
		return "ok"
	}},
	{Name: "waitgroup-join", Native: true, Expected: []string{"3"}, Run: func(ctx context.Context, cancel func()) string {
		var wg sync.WaitGroup
		var mu sync.Mutex
		n := 0
		for i := 0; i < 3; i++ {
			wg.Add(1)
			go func() { defer wg.Done(); mu.Lock(); n++; mu.Unlock() }()
		}
		wg.Wait()
		return fmt.Sprint(n)
	}},
	{Name: "ticker-or-work", Native: true, Ticks: 1, Expected: []string{"tick", "work"}, Run: func(ctx context.Context, cancel func()) string {
		t := time.NewTicker(time.Nanosecond)
		defer t.Stop()
		w := make(chan int, 1)
		go func() { w <- 1 }()
		select {
		case <-t.C:
			<-w
			return "tick"
		case <-w:
			return "work"
		}
	}},
	{Name: "cap1-enqueue-loop-handshake", Native: true, Expected: []string{"a;b;closed"}, Run: func(ctx context.Context, cancel func()) string {
		// the enqueuec pattern: cap-1 channel, consumer drains until closed
		q := make(chan string, 1)
		out := make(chan string)
		go func() {
			s := ""
			for {
				v, ok := <-q
				if !ok {
					out <- s + "closed"
					return
				}
				s += v + ";"
			}
		}()
		q <- "a"
		q <- "b"
		close(q)
		return <-out
	}},
	{Name: "len-cap", Native: true, Expected: []string{"1/2"}, Run: func(ctx context.Context, cancel func()) string {
		c := make(chan int, 2)
		c <- 1
		return fmt.Sprintf("%d/%d", len(c), cap(c))
	}},
}
