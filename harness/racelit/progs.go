// Package racelit holds small ordinary Go programs whose data-race verdict
// follows from the Go memory model. They bind the race build (DESIGN.md §3.6)
// to Go: the rewritten copy (package racelitvs) is explored over all
// interleavings under the controlled scheduler with the race detector on, and
// must be reported racy exactly when the memory model says so; the native copy
// is run under the same detector as a cross-check.
package racelit

import (
	"context"
	"sync"
)

// Prog is one race litmus program. Run must terminate in every interleaving.
type Prog struct {
	Name string
	Racy bool
	Run  func(ctx context.Context, cancel func()) int
}

// Progs is the suite.
var Progs = []Prog{
	{Name: "unbuffered-send-then-read", Racy: false, Run: func(ctx context.Context, cancel func()) int {
		x := 0
		c := make(chan int)
		go func() { x = 1; c <- 0 }()
		<-c
		return x
	}},
	{Name: "unbuffered-receive-before-send-completes", Racy: false, Run: func(ctx context.Context, cancel func()) int {
		x := 0
		c := make(chan int)
		go func() { x = 1; <-c }()
		c <- 0
		return x
	}},
	{Name: "buffered-send-then-read", Racy: false, Run: func(ctx context.Context, cancel func()) int {
		x := 0
		c := make(chan int, 1)
		go func() { x = 1; c <- 0 }()
		<-c
		return x
	}},
	{Name: "buffered-kth-receive-before-k-plus-cap-send", Racy: false, Run: func(ctx context.Context, cancel func()) int {
		x := 0
		c := make(chan int, 1)
		c <- 0
		go func() { x = 1; <-c }()
		c <- 1
		return x
	}},
	{Name: "buffered-write-after-send", Racy: true, Run: func(ctx context.Context, cancel func()) int {
		x := 0
		c := make(chan int, 1)
		d := make(chan int)
		go func() { c <- 0; x = 1; d <- 0 }()
		<-c
		y := x
		<-d
		return y
	}},
	{Name: "close-then-read", Racy: false, Run: func(ctx context.Context, cancel func()) int {
		x := 0
		c := make(chan int)
		go func() { x = 1; close(c) }()
		<-c
		return x
	}},
	{Name: "two-writers-joined-later", Racy: true, Run: func(ctx context.Context, cancel func()) int {
		x := 0
		d := make(chan int)
		go func() { x = 1; d <- 0 }()
		go func() { x = 2; d <- 0 }()
		<-d
		<-d
		return x
	}},
	{Name: "spawn-edge", Racy: false, Run: func(ctx context.Context, cancel func()) int {
		x := 1
		d := make(chan int)
		go func() { d <- x }()
		return <-d
	}},
	{Name: "synchronised-through-the-wrong-channel", Racy: true, Run: func(ctx context.Context, cancel func()) int {
		x := 0
		a, b := make(chan int), make(chan int)
		go func() { x = 1; a <- 0 }()
		go func() { b <- 0 }()
		<-b
		y := x
		<-a
		return y
	}},
	{Name: "context-cancel-then-done", Racy: false, Run: func(ctx context.Context, cancel func()) int {
		x := 0
		go func() { x = 1; cancel() }()
		<-ctx.Done()
		return x
	}},
	{Name: "context-err-is-not-a-release", Racy: true, Run: func(ctx context.Context, cancel func()) int {
		x := 0
		d := make(chan int)
		go func() { x = 1; _ = ctx.Err(); d <- 0 }()
		_ = ctx.Err()
		y := x
		<-d
		return y
	}},
	{Name: "transitive-through-two-channels", Racy: false, Run: func(ctx context.Context, cancel func()) int {
		x := 0
		a, b := make(chan int), make(chan int, 1)
		go func() { x = 1; a <- 0 }()
		go func() { <-a; b <- 0 }()
		<-b
		return x
	}},
	{Name: "both-write-after-rendezvous", Racy: true, Run: func(ctx context.Context, cancel func()) int {
		x := 0
		c, d := make(chan int), make(chan int)
		go func() { c <- 0; x = 1; d <- 0 }()
		<-c
		x = 2
		<-d
		return x
	}},
	{Name: "select-receive-orders", Racy: false, Run: func(ctx context.Context, cancel func()) int {
		x, y := 0, 0
		a, b := make(chan int), make(chan int)
		go func() { x = 1; a <- 0 }()
		go func() { y = 1; b <- 0 }()
		r := 0
		for i := 0; i < 2; i++ {
			select {
			case <-a:
				r += x
			case <-b:
				r += y
			}
		}
		return r
	}},
	{Name: "mutex-protected", Racy: false, Run: func(ctx context.Context, cancel func()) int {
		x := 0
		var mu sync.Mutex
		d := make(chan int)
		go func() { mu.Lock(); x++; mu.Unlock(); d <- 0 }()
		mu.Lock()
		x++
		mu.Unlock()
		<-d
		return x
	}},
	{Name: "waitgroup-join", Racy: false, Run: func(ctx context.Context, cancel func()) int {
		x := 0
		var wg sync.WaitGroup
		wg.Add(1)
		go func() { x = 1; wg.Done() }()
		wg.Wait()
		return x
	}},
	{Name: "range-over-closed-buffered", Racy: false, Run: func(ctx context.Context, cancel func()) int {
		xs := [2]int{}
		c := make(chan int, 2)
		go func() { xs[0] = 1; c <- 0; xs[1] = 2; c <- 1; close(c) }()
		s := 0
		for i := range c {
			s += xs[i]
		}
		return s
	}},
	{Name: "result-read-after-early-return", Racy: true, Run: func(ctx context.Context, cancel func()) int {
		// the shape of "the directive returned early while a task was still running"
		done := false
		fin := make(chan int)
		go func() { <-ctx.Done(); done = true; fin <- 0 }()
		cancel()
		y := 0
		if done {
			y = 1
		}
		<-fin
		return y
	}},
}
