// Package schedsc defines the closed scheduler-level scenarios explored by the
// model checker and the per-execution oracles for properties C01, C03, C05,
// C06, C07, C08, C09, C19 (and the bodies reused by the C12 race build).
package schedsc

import (
	"context"
	"errors"
	"fmt"
	"runtime"
	"sort"
	"strings"

	"go.uber.org/cff/scheduler"
	"go.uber.org/cff/zzverif/vs"
	"go.uber.org/multierr"
)

// Outcomes of a job body.
const (
	OK        = "ok"
	Err       = "err"
	Goexit    = "goexit"
	CancelOK  = "cancel-ok"  // cancels the shared context, then succeeds
	CancelErr = "cancel-err" // cancels the shared context, then fails
	Gate      = "gate"       // blocks until the caller releases it after Wait returned
	Barrier   = "barrier"    // meets the other barrier jobs (all must run at once)
	ErrCtx    = "errctx"     // fails with an error wrapping context.DeadlineExceeded; no context is cancelled
	ErrSame   = "errsame"    // fails with an error value shared by every errsame job (a package-level sentinel)
	ErrWrap   = "errwrap"    // fails with its own error that wraps the shared sentinel
	OwnGoexit = "own-goexit" // cancels its own (per-job) context, then kills its goroutine
	// CancelGate cancels the shared context and then keeps running until the caller releases it after Wait returned
	CancelGate = "cancel-gate"
)

// JobSpec describes one job. Deps index earlier jobs (duplicates allowed).
type JobSpec struct {
	Deps   []int  `json:"deps,omitempty"`
	Out    string `json:"out"`
	Caller int    `json:"caller,omitempty"`  // 0: main caller, 1: second caller thread
	OwnCtx bool   `json:"own_ctx,omitempty"` // enqueued with its own, already cancelled context
	// OwnLive: enqueued with its own live context (outcome own-goexit cancels it)
	OwnLive bool `json:"own_live,omitempty"`
}

// Scenario is one closed harness.
type Scenario struct {
	Name       string    `json:"name"`
	N          int       `json:"n"` // Concurrency; 0 = default
	GOMAXPROCS int       `json:"gomaxprocs,omitempty"`
	COE        bool      `json:"coe,omitempty"`
	Emitter    bool      `json:"emitter,omitempty"`
	Ticks      int       `json:"ticks,omitempty"`
	Jobs       []JobSpec `json:"jobs"`
	Cancelable bool      `json:"cancelable,omitempty"` // shared context is cancellable
	PreCancel  bool      `json:"precancel,omitempty"`  // cancelled before the first Enqueue
	Canceller  bool      `json:"canceller,omitempty"`  // a separate thread cancels at any instant
	Twice      bool      `json:"twice,omitempty"`      // run the whole scenario twice in sequence
	Census     string    `json:"census,omitempty"`     // census group: threads created must not grow with len(Jobs) inside a group
	WaitBg     bool      `json:"wait_bg,omitempty"`    // Wait is called with context.Background() (jobs keep the cancellable context)
	// EmitGoexit: the emitter kills its goroutine (the scheduler loop) on its first report, as t.FailNow in a test emitter would
	EmitGoexit bool `json:"emit_goexit,omitempty"`
	// Probe > 0: a boundary probe with a wide limit - explored over the first
	// Probe schedules of the preemption-bound-0 search only (reported as such,
	// never counted as exhaustive)
	Probe int `json:"probe,omitempty"`
}

func (s *Scenario) String() string {
	var js []string
	for _, j := range s.Jobs {
		d := ""
		if len(j.Deps) > 0 {
			d = fmt.Sprint(j.Deps)
		}
		c := ""
		if j.Caller != 0 {
			c = "@2"
		}
		if j.OwnCtx {
			c += "@cancelledctx"
		}
		if j.OwnLive {
			c += "@ownctx"
		}
		js = append(js, j.Out+d+c)
	}
	f := ""
	if s.COE {
		f += " coe"
	}
	if s.Emitter {
		f += fmt.Sprintf(" emit/%d", s.Ticks)
	}
	if s.PreCancel {
		f += " precancel"
	}
	if s.Canceller {
		f += " canceller"
	}
	if s.Twice {
		f += " twice"
	}
	if s.WaitBg {
		f += " waitbg"
	}
	if s.EmitGoexit {
		f += " emit-goexit"
	}
	if s.Probe > 0 {
		f += fmt.Sprintf(" probe/%d", s.Probe)
		if len(js) > 6 {
			js = append(js[:2], fmt.Sprintf("... %d jobs in all", len(s.Jobs)))
		}
	}
	return fmt.Sprintf("N=%d%s [%s]", s.N, f, strings.Join(js, " "))
}

// EffN is the effective concurrency limit of the scenario.
func (s *Scenario) EffN() int {
	if s.N > 0 {
		return s.N
	}
	g := s.GOMAXPROCS
	if g < 4 {
		g = 4
	}
	return g
}

func (s *Scenario) usesCancel() bool {
	if s.PreCancel || s.Canceller || s.Cancelable {
		return true
	}
	for _, j := range s.Jobs {
		if j.Out == CancelOK || j.Out == CancelErr || j.Out == CancelGate {
			return true
		}
	}
	return false
}

// Run is the per-execution state the oracles read afterwards.
type Run struct {
	Sc       *Scenario
	Errs     []error
	WaitErr  []error // one per round
	Returned []bool
	States   []stateRec
}

type stateRec struct {
	St    scheduler.State
	VC    vs.VC
	Round int
}

type emitter struct {
	r     *Run
	round int
}

func (e *emitter) Emit(s scheduler.State) {
	vs.Emit("emitter", "state", fmt.Sprintf("r%d %+v", e.round, s))
	e.r.States = append(e.r.States, stateRec{St: s, VC: vs.Now(), Round: e.round})
	if e.r.Sc.EmitGoexit {
		runtime.Goexit()
	}
}

func jobObj(round, i int) string { return fmt.Sprintf("r%d.job%d", round, i) }

// Body returns the thread-0 body of the scenario and the Run it fills in.
func (s *Scenario) Body() (func(), *Run) {
	r := &Run{Sc: s}
	shared := errors.New("shared sentinel: not found")
	for i := range s.Jobs {
		if s.Jobs[i].Out == ErrCtx {
			r.Errs = append(r.Errs, fmt.Errorf("job %d inner timeout: %w", i, context.DeadlineExceeded))
		} else if s.Jobs[i].Out == ErrSame {
			r.Errs = append(r.Errs, shared)
		} else if s.Jobs[i].Out == ErrWrap {
			r.Errs = append(r.Errs, fmt.Errorf("job %d lookup: %w", i, shared))
		} else {
			r.Errs = append(r.Errs, fmt.Errorf("job %d failed", i))
		}
	}
	rounds := 1
	if s.Twice {
		rounds = 2
	}
	r.WaitErr = make([]error, rounds)
	r.Returned = make([]bool, rounds)
	return func() {
		for round := 0; round < rounds; round++ {
			s.round(r, round)
		}
		vs.Emit("caller", "end", nil)
	}, r
}

func (s *Scenario) round(r *Run, round int) {
	// contexts descend from a live cancellable standard-library context (see vs.LiveParent)
	var ctx context.Context = vs.LiveParent()
	cancel := func() {}
	if s.usesCancel() {
		c, cf := vs.WithCancel(vs.LiveParent(), fmt.Sprintf("r%d", round))
		ctx, cancel = c, cf
	}
	if s.PreCancel {
		cancel()
	}
	cfg := scheduler.Config{Concurrency: s.N, ContinueOnError: s.COE, StateFlushFrequency: 1}
	if s.Emitter {
		cfg.Emitter = &emitter{r: r, round: round}
	}
	sched := cfg.New()
	if s.Canceller {
		vs.Go(func() { cancel() })
	}
	gate := vs.NewChan[struct{}](0).Name("gate")
	var barrier vs.WaitGroup
	nb := 0
	for _, j := range s.Jobs {
		if j.Out == Barrier {
			nb++
		}
	}
	if nb > 0 {
		barrier.Add(nb)
	}
	handles := make([]*scheduler.ScheduledJob, len(s.Jobs))
	var ownCtx context.Context
	for _, j := range s.Jobs {
		if j.OwnCtx && ownCtx == nil {
			c, cf := vs.WithCancel(vs.LiveParent(), fmt.Sprintf("own%d", round))
			cf()
			ownCtx = c
		}
	}
	liveCtx := map[int]context.Context{}
	liveCancel := map[int]func(){}
	for i, j := range s.Jobs {
		if j.OwnLive {
			c, cf := vs.WithCancel(vs.LiveParent(), fmt.Sprintf("live%d.%d", round, i))
			liveCtx[i], liveCancel[i] = c, cf
		}
	}
	jctx := func(i int) context.Context {
		if s.Jobs[i].OwnCtx {
			return ownCtx
		}
		if s.Jobs[i].OwnLive {
			return liveCtx[i]
		}
		return ctx
	}
	mk := func(i int) scheduler.Job {
		j := s.Jobs[i]
		obj := jobObj(round, i)
		var deps []*scheduler.ScheduledJob
		for _, d := range j.Deps {
			deps = append(deps, handles[d])
		}
		return scheduler.Job{
			Dependencies: deps,
			Run: func(context.Context) error {
				vs.Emit(obj, "start", nil)
				switch j.Out {
				case OK:
				case Err, ErrCtx, ErrSame, ErrWrap:
					vs.Emit(obj, "end", "err")
					return r.Errs[i]
				case OwnGoexit:
					if cf := liveCancel[i]; cf != nil {
						cf()
					}
					vs.Emit(obj, "end", "goexit")
					runtime.Goexit()
				case Goexit:
					vs.Emit(obj, "end", "goexit")
					runtime.Goexit()
				case CancelOK:
					cancel()
				case CancelErr:
					cancel()
					vs.Emit(obj, "end", "err")
					return r.Errs[i]
				case Gate:
					gate.Recv()
				case CancelGate:
					cancel()
					gate.Recv()
				case Barrier:
					barrier.Done()
					barrier.Wait()
				default:
					panic("unknown outcome " + j.Out)
				}
				vs.Emit(obj, "end", "ok")
				return nil
			},
		}
	}
	second := false
	for _, j := range s.Jobs {
		if j.Caller == 1 {
			second = true
		}
	}
	var secondDone *vs.Chan[struct{}]
	if second {
		secondDone = vs.NewChan[struct{}](0).Name("second-done")
		vs.Go(func() {
			for i, j := range s.Jobs {
				if j.Caller == 1 {
					vs.Emit("caller", "enq-begin", round*1000+i)
					handles[i] = sched.Enqueue(jctx(i), mk(i))
				}
			}
			secondDone.Close()
		})
	}
	for i, j := range s.Jobs {
		if j.Caller == 0 {
			vs.Emit("caller", "enq-begin", round*1000+i)
			handles[i] = sched.Enqueue(jctx(i), mk(i))
		}
	}
	if second {
		secondDone.Recv()
	}
	vs.Emit("caller", "wait-begin", round)
	wctx := ctx
	if s.WaitBg {
		wctx = context.Background()
	}
	err := sched.Wait(wctx)
	r.WaitErr[round] = err
	r.Returned[round] = true
	vs.Emit("caller", "wait-returned", round)
	gate.Close()
}

// ---------------------------------------------------------------- oracles

// Finding is one property violation observed in an execution.
type Finding struct {
	Prop string
	Msg  string
}

type jobRec struct {
	starts []vs.Event
	ends   []vs.Event
}

func ancestors(s *Scenario, i int, seen map[int]bool) {
	for _, d := range s.Jobs[i].Deps {
		if !seen[d] {
			seen[d] = true
			ancestors(s, d, seen)
		}
	}
}

// Check evaluates every oracle on one finished execution.
func Check(r *Run, ex *vs.Exec) []Finding {
	var out []Finding
	add := func(p, f string, a ...any) { out = append(out, Finding{p, fmt.Sprintf(f, a...)}) }
	s := r.Sc
	N := s.EffN()
	rounds := len(r.WaitErr)

	switch ex.Term {
	case vs.TermCrash:
		add("C05", "a panic escaped thread %d: %v", ex.CrashTid, ex.CrashVal)
		return out
	case vs.TermHorizon:
		add("C05", "livelock: step horizon exceeded (%d steps)", ex.Steps)
		return out
	}

	callerDone := len(ex.Threads) > 0 && ex.Threads[0].Done
	if !callerDone {
		var blocked []string
		for _, t := range ex.Threads {
			if !t.Done {
				blocked = append(blocked, fmt.Sprintf("T%d(%s) on %s", t.ID, t.Name, t.Pending))
			}
		}
		hasBarrier := false
		for _, j := range s.Jobs {
			if j.Out == Barrier {
				hasBarrier = true
			}
		}
		hasGate := countOut(s, Gate)+countOut(s, CancelGate) > 0
		if hasGate && !s.usesCancel() {
			// A gated job only returns after Wait did: C05's premise (every user
			// function eventually returns) does not hold, nothing to report.
		} else if hasGate {
			add("C09", "the call did not return after the context was cancelled while a task was still running; blocked: %s", strings.Join(blocked, "; "))
		} else if hasBarrier {
			if len(blocked) > 8 {
				blocked = append(blocked[:8:8], fmt.Sprintf("... %d threads in all", len(blocked)))
			}
			add("C03", "capacity lost: %d jobs that must run simultaneously (limit %d) never all ran; blocked: %s", countOut(s, Barrier), N, strings.Join(blocked, "; "))
		} else {
			add("C05", "deadlock: caller never returned; blocked: %s", strings.Join(blocked, "; "))
		}
	} else {
		for _, t := range ex.Threads {
			if !t.Done {
				add("C06", "goroutine leak: thread %d (%s) still blocked on %s after the caller finished", t.ID, t.Name, t.Pending)
			}
		}
	}

	// index the log
	jobs := make([][]jobRec, rounds)
	for i := range jobs {
		jobs[i] = make([]jobRec, len(s.Jobs))
	}
	var cancels, waitRet, enqBegin []vs.Event
	waitRetByRound := map[int]vs.Event{}
	for _, e := range ex.Log {
		switch {
		case strings.HasPrefix(e.Obj, "r") && strings.Contains(e.Obj, ".job"):
			var rd, i int
			fmt.Sscanf(e.Obj, "r%d.job%d", &rd, &i)
			if e.Label == "start" {
				jobs[rd][i].starts = append(jobs[rd][i].starts, e)
			} else {
				jobs[rd][i].ends = append(jobs[rd][i].ends, e)
			}
		case strings.HasPrefix(e.Obj, "ctx:") && e.Label == "cancel":
			cancels = append(cancels, e)
		case e.Obj == "caller" && e.Label == "wait-returned":
			waitRet = append(waitRet, e)
			waitRetByRound[e.Data.(int)] = e
		case e.Obj == "caller" && e.Label == "enq-begin":
			enqBegin = append(enqBegin, e)
		}
	}
	_ = waitRet

	for rd := 0; rd < rounds; rd++ {
		jr := jobs[rd]
		var cancelEv *vs.Event
		for i := range cancels {
			if cancels[i].Obj == fmt.Sprintf("ctx:r%d", rd) {
				cancelEv = &cancels[i]
			}
		}
		endedOK := func(i int) bool {
			return len(jr[i].ends) == 1 && jr[i].ends[0].Data == "ok"
		}
		failed := func(i int) bool {
			return len(jr[i].ends) >= 1 && jr[i].ends[0].Data != "ok"
		}
		// C01
		for i := range s.Jobs {
			if len(jr[i].starts) > 1 {
				add("C01", "round %d: job %d executed %d times", rd, i, len(jr[i].starts))
			}
			for _, st := range jr[i].starts {
				for _, d := range s.Jobs[i].Deps {
					if len(jr[d].ends) == 0 {
						add("C01", "round %d: job %d started but dependency %d never finished", rd, i, d)
						continue
					}
					if jr[d].ends[0].Data != "ok" {
						add("C01", "round %d: job %d started although dependency %d failed (%v)", rd, i, d, jr[d].ends[0].Data)
					}
					if !vs.HB(jr[d].ends[0].VC, st.VC) {
						add("C01", "round %d: job %d started without happening-after the end of dependency %d", rd, i, d)
					}
				}
			}
		}
		// C03(a): bounded concurrency - largest set of pairwise concurrent bodies
		var started []int
		for i := range s.Jobs {
			if len(jr[i].starts) > 0 {
				started = append(started, i)
			}
		}
		conc := func(a, b int) bool {
			ea, eb := jr[a].ends, jr[b].ends
			if len(ea) > 0 && vs.HB(ea[0].VC, jr[b].starts[0].VC) {
				return false
			}
			if len(eb) > 0 && vs.HB(eb[0].VC, jr[a].starts[0].VC) {
				return false
			}
			return true
		}
		best := 0
		var bestSet []int
		for m := 1; m < 1<<len(started); m++ {
			var set []int
			for b := range started {
				if m&(1<<b) != 0 {
					set = append(set, started[b])
				}
			}
			if len(set) <= best {
				continue
			}
			ok := true
			for x := 0; x < len(set) && ok; x++ {
				for y := x + 1; y < len(set); y++ {
					if !conc(set[x], set[y]) {
						ok = false
						break
					}
				}
			}
			if ok {
				best, bestSet = len(set), set
			}
		}
		if best > N {
			add("C03", "round %d: %d job bodies %v can execute simultaneously, limit is %d", rd, best, bestSet, N)
		}

		if !r.Returned[rd] {
			continue
		}
		werr := r.WaitErr[rd]
		wr := waitRetByRound[rd]
		cancelBefore := cancelEv != nil && vs.HB(cancelEv.VC, wr.VC)
		// C09
		if cancelEv != nil {
			for i := range s.Jobs {
				for _, st := range jr[i].starts {
					if vs.HB(cancelEv.VC, st.VC) {
						add("C09", "round %d: job %d started after the context was cancelled (cancel happens-before its start)", rd, i)
					}
				}
			}
			if cancelBefore && werr == nil && !s.WaitBg {
				add("C09", "round %d: Wait returned nil although the context was cancelled before it returned", rd)
			}
		}
		isCtxErr := func(e error) bool { return errors.Is(e, context.Canceled) }
		anyGoexit := false
		for i := range s.Jobs {
			if len(jr[i].ends) > 0 && jr[i].ends[0].Data == "goexit" {
				anyGoexit = true
			}
		}
		isExitErr := func(e error) bool { return e != nil && e.Error() == "job exited unexpectedly" }
		isLoopExit := func(e error) bool { return e != nil && e.Error() == "scheduler loop exited unexpectedly" }
		if s.EmitGoexit {
			// The emitter killed the scheduler loop: jobs may legitimately never run, but then
			// Wait must not report success (C07/C08: nil means everything ran).
			allRan := true
			for i := range s.Jobs {
				if len(jr[i].starts) != 1 || !endedOK(i) {
					allRan = false
				}
			}
			if werr == nil && !allRan {
				prop := "C07"
				if s.COE {
					prop = "C08"
				}
				add(prop, "round %d: Wait returned nil although the scheduler loop was killed (by its emitter) before every job had run", rd)
			}
			for _, e := range multierr.Errors(werr) {
				if !isLoopExit(e) {
					add("C07", "round %d: unexpected error %q after the scheduler loop was killed", rd, e)
				}
			}
			continue
		}
		if !s.COE {
			// C07
			if werr == nil {
				for i := range s.Jobs {
					if len(jr[i].starts) != 1 || !endedOK(i) {
						add("C07", "round %d: Wait returned nil but job %d did not run exactly once successfully (starts=%d ends=%v)", rd, i, len(jr[i].starts), endData(jr[i].ends))
					}
				}
			} else {
				okErr := false
				for i := range s.Jobs {
					if failed(i) && jr[i].ends[0].Data == "err" && errors.Is(werr, r.Errs[i]) {
						okErr = true
					}
				}
				if isCtxErr(werr) && (cancelEv != nil || anyOwnCtx(s)) {
					okErr = true
				}
				if isExitErr(werr) && anyGoexit {
					okErr = true
				}
				if !okErr {
					add("C07", "round %d: Wait returned %q which is neither the error of a job that failed in this execution nor the context's error", rd, werr)
				}
			}
		} else {
			// C08
			errs := multierr.Errors(werr)
			for _, e := range errs {
				if e.Error() == "job invalid" {
					add("C08", "round %d: internal sentinel %q leaked into the returned error", rd, e)
				}
			}
			if cancelEv == nil && !anyOwnCtx(s) {
				for i := range s.Jobs {
					anc := map[int]bool{}
					ancestors(s, i, anc)
					allOK := true
					for a := range anc {
						if !endedOK(a) {
							allOK = false
						}
					}
					if allOK && len(jr[i].starts) != 1 {
						add("C08", "round %d: job %d has only successful ancestors but ran %d times", rd, i, len(jr[i].starts))
					}
					if !allOK && len(jr[i].starts) != 0 {
						add("C08", "round %d: job %d ran although an ancestor failed", rd, i)
					}
				}
				var want, got []string
				for i := range s.Jobs {
					if failed(i) {
						if jr[i].ends[0].Data == "goexit" {
							want = append(want, "job exited unexpectedly")
						} else {
							want = append(want, r.Errs[i].Error())
						}
					}
				}
				for _, e := range errs {
					got = append(got, e.Error())
					if !isExitErr(e) {
						id := false
						for i := range s.Jobs {
							if e == r.Errs[i] {
								id = true
							}
						}
						if !id {
							add("C08", "round %d: returned error entry %q is not the error value any job returned", rd, e)
						}
					}
				}
				sort.Strings(want)
				sort.Strings(got)
				if strings.Join(want, "|") != strings.Join(got, "|") {
					add("C08", "round %d: returned errors %v, want exactly one entry per failed job %v", rd, got, want)
				}
			} else {
				// With cancellation the call may return early with the context error;
				// every entry must still be a real failure (once) or a context error.
				seen := map[int]int{}
				nctx := 0
				for _, e := range errs {
					switch {
					case isCtxErr(e):
						nctx++
					case isExitErr(e) && anyGoexit:
					default:
						id := -1
						for i := range s.Jobs {
							if e == r.Errs[i] && failed(i) {
								id = i
							}
						}
						if id < 0 {
							add("C08", "round %d: returned error entry %q is not the error of a job that failed", rd, e)
						} else {
							seen[id]++
							if seen[id] > 1 {
								add("C08", "round %d: error of job %d reported %d times", rd, id, seen[id])
							}
						}
					}
				}
				notRun := 0
				for i := range s.Jobs {
					if len(jr[i].starts) == 0 {
						notRun++
					}
				}
				if nctx > notRun+1 {
					add("C08", "round %d: %d context errors reported but only %d jobs were skipped", rd, nctx, notRun)
				}
				for i := range s.Jobs {
					anc := map[int]bool{}
					ancestors(s, i, anc)
					for a := range anc {
						if failed(a) && len(jr[i].starts) != 0 {
							add("C08", "round %d: job %d ran although ancestor %d failed", rd, i, a)
						}
					}
				}
			}
		}
		// C07/C08 shared: nobody downstream of a failure runs (fail-fast too)
		if !s.COE {
			for i := range s.Jobs {
				anc := map[int]bool{}
				ancestors(s, i, anc)
				for a := range anc {
					if failed(a) && len(jr[i].starts) != 0 {
						add("C07", "round %d: job %d ran although ancestor %d failed", rd, i, a)
					}
				}
			}
		}
	}

	// C19
	for _, sr := range r.States {
		st := sr.St
		exec := st.Pending - st.Ready - st.Waiting
		if st.Pending < 0 || st.Ready < 0 || st.Waiting < 0 || st.IdleWorkers < 0 || st.Concurrency < 0 {
			add("C19", "negative count in state report %+v", st)
		}
		if exec < 0 || exec > st.Concurrency {
			add("C19", "state report %+v: executing = Pending-Ready-Waiting = %d outside [0,%d]", st, exec, st.Concurrency)
		}
		if st.IdleWorkers != st.Concurrency-exec && exec >= 0 && exec <= st.Concurrency {
			add("C19", "state report %+v: IdleWorkers != Concurrency - executing (%d)", st, st.Concurrency-exec)
		}
		if st.Concurrency != N {
			add("C19", "state report %+v: Concurrency != configured %d", st, N)
		}
		sub, withDeps := 0, 0
		for _, e := range enqBegin {
			d := e.Data.(int)
			if d/1000 == sr.Round && vs.HB(e.VC, sr.VC) {
				sub++
				if len(s.Jobs[d%1000].Deps) > 0 {
					withDeps++
				}
			}
		}
		if st.Pending > sub {
			add("C19", "state report %+v: Pending exceeds the %d jobs submitted so far", st, sub)
		}
		if st.Waiting > withDeps {
			add("C19", "state report %+v: Waiting exceeds the %d submitted jobs that have dependencies", st, withDeps)
		}
		if wr, ok := waitRetByRound[sr.Round]; ok && r.WaitErr[sr.Round] == nil && !vs.HB(sr.VC, wr.VC) {
			add("C19", "state report %+v is not ordered before the normal return of Wait (it can be emitted after Wait returned)", st)
		}
	}
	return out
}

func anyOwnCtx(s *Scenario) bool {
	for _, j := range s.Jobs {
		if j.OwnCtx {
			return true
		}
	}
	return false
}

func countOut(s *Scenario, out string) int {
	n := 0
	for _, j := range s.Jobs {
		if j.Out == out {
			n++
		}
	}
	return n
}

func endData(ev []vs.Event) []any {
	var o []any
	for _, e := range ev {
		o = append(o, e.Data)
	}
	return o
}

// Visible renders the harness-visible event trace of an execution (used to
// count distinct observable outcomes and to compare replays).
func Visible(r *Run, ex *vs.Exec) string {
	var b strings.Builder
	for _, e := range ex.Log {
		b.WriteString(e.String())
		b.WriteByte(';')
	}
	for i, e := range r.WaitErr {
		fmt.Fprintf(&b, "wait%d=%v;", i, e)
	}
	b.WriteString(ex.Term.String())
	return b.String()
}
