package schedsc

import (
	"fmt"
	"go/ast"
	"go/parser"
	"go/token"
	"os"
	"path/filepath"
	"sort"
	"strconv"
	"strings"
)

// AllDAGs returns, for k jobs in enqueue order, every dependency assignment
// deps(i) subset of {0..i-1}: 2^(k(k-1)/2) graphs.
func AllDAGs(k int) [][][]int {
	res := [][][]int{{}}
	for i := 0; i < k; i++ {
		var next [][][]int
		for _, g := range res {
			for m := 0; m < 1<<i; m++ {
				var d []int
				for b := 0; b < i; b++ {
					if m&(1<<b) != 0 {
						d = append(d, b)
					}
				}
				ng := append(append([][]int{}, g...), d)
				next = append(next, ng)
			}
		}
		res = next
	}
	return res
}

// Vectors returns all outcome vectors of length k over outs with at most
// maxNonOK entries different from OK (maxNonOK<0: unlimited).
func Vectors(k int, outs []string, maxNonOK int) [][]string {
	res := [][]string{{}}
	for i := 0; i < k; i++ {
		var next [][]string
		for _, v := range res {
			for _, o := range outs {
				nv := append(append([]string{}, v...), o)
				next = append(next, nv)
			}
		}
		res = next
	}
	if maxNonOK < 0 {
		return res
	}
	var f [][]string
	for _, v := range res {
		n := 0
		for _, o := range v {
			if o != OK {
				n++
			}
		}
		if n <= maxNonOK {
			f = append(f, v)
		}
	}
	return f
}

func mk(n int, coe bool, g [][]int, v []string) Scenario {
	s := Scenario{N: n, COE: coe}
	for i := range g {
		s.Jobs = append(s.Jobs, JobSpec{Deps: g[i], Out: v[i]})
	}
	return s
}

// Core is the product DAGs(k) x vectors x Ns x modes.
func Core(k int, ns []int, modes []bool, outs []string, maxNonOK int) []Scenario {
	var out []Scenario
	for _, g := range AllDAGs(k) {
		for _, v := range Vectors(k, outs, maxNonOK) {
			for _, n := range ns {
				for _, coe := range modes {
					out = append(out, mk(n, coe, g, v))
				}
			}
		}
	}
	return out
}

// Named shapes.
var (
	Chain4 = [][]int{nil, {0}, {1}, {2}}
	// JoinTail4: a consumer of two providers with a consumer of its own (a job two levels below a failure
	// whose middle job still waits for the other provider)
	JoinTail4 = [][]int{nil, nil, {0, 1}, {2}}
	Diamond4  = [][]int{nil, {0}, {0}, {1, 2}}
	FanIn4    = [][]int{nil, nil, nil, {0, 1, 2}}
	FanOut4   = [][]int{nil, {0}, {0}, {0}}
	Indep4    = [][]int{nil, nil, nil, nil}
	Diamond5  = [][]int{nil, {0}, {0}, {1, 2}, {3}}
	FanIn5    = [][]int{nil, nil, nil, {0, 1, 2}, {3}}
	DDiam5    = [][]int{nil, {0}, {0}, {1, 2}, {1, 2}}
	Indep5    = [][]int{nil, nil, nil, nil, nil}
)

func shapes(gs [][][]int, ns []int, modes []bool, outs []string, maxNonOK int) []Scenario {
	var out []Scenario
	for _, g := range gs {
		for _, v := range Vectors(len(g), outs, maxNonOK) {
			for _, n := range ns {
				for _, coe := range modes {
					out = append(out, mk(n, coe, g, v))
				}
			}
		}
	}
	return out
}

var both = []bool{false, true}

// dupDeps: duplicate dependency lists and repeated edges.
func dupDeps(ns []int) []Scenario {
	var out []Scenario
	for _, n := range ns {
		for _, coe := range both {
			for _, v := range Vectors(3, []string{OK, Err}, 1) {
				out = append(out, mk(n, coe, [][]int{nil, {0, 0}, {0, 1, 0, 1}}, v))
				out = append(out, mk(n, coe, [][]int{nil, nil, {1, 1, 0}}, v))
			}
		}
	}
	return out
}

func withCancel(s Scenario, pre, canceller bool) Scenario {
	s.Cancelable = true
	s.PreCancel = pre
	s.Canceller = canceller
	return s
}

func withEmitter(s Scenario, ticks int) Scenario {
	s.Emitter = true
	s.Ticks = ticks
	return s
}

// cancelFamily: cancellation from inside a job, from a separate thread at any
// instant, and before the call; plus gates showing Wait does not wait.
func cancelFamily(k int, ns []int, thorough bool) []Scenario {
	var out []Scenario
	outs := []string{OK, CancelOK, CancelErr}
	for _, g := range AllDAGs(k) {
		for _, v := range Vectors(k, outs, 1) {
			nc := 0
			for _, o := range v {
				if o != OK {
					nc++
				}
			}
			for _, n := range ns {
				for _, coe := range both {
					s := mk(n, coe, g, v)
					if nc > 0 {
						out = append(out, s)
					} else {
						out = append(out, withCancel(s, true, false), withCancel(s, false, true))
					}
				}
			}
		}
	}
	// gate: one job still running when the directive gives up
	for _, n := range ns {
		if n < 2 {
			continue
		}
		for _, coe := range both {
			out = append(out,
				withCancel(mk(n, coe, [][]int{nil, nil}, []string{Gate, CancelOK}), false, false),
				withCancel(mk(n, coe, [][]int{nil, nil, {1}}, []string{Gate, CancelOK, OK}), false, false),
				withCancel(mk(n, coe, [][]int{nil, nil}, []string{Gate, OK}), false, true),
			)
		}
		out = append(out,
			mk(n, false, [][]int{nil, nil}, []string{Gate, Err}),
			mk(n, false, [][]int{nil, nil, {1}}, []string{Gate, Err, OK}),
			mk(n, false, [][]int{nil, nil, nil}, []string{Gate, Err, OK}),
		)
	}
	// enqueue pressure: the caller is still enqueuing runnable jobs when the context is cancelled with a job running
	for _, coe := range both {
		out = append(out,
			withCancel(mk(1, coe, [][]int{nil, nil, nil, nil}, []string{Gate, OK, OK, OK}), false, true),
			withCancel(mk(1, coe, [][]int{nil, nil, nil, nil, nil}, []string{Gate, OK, OK, OK, OK}), false, true),
			withCancel(mk(1, coe, [][]int{nil, nil, nil, nil}, []string{CancelGate, OK, OK, OK}), false, false),
		)
	}
	if thorough {
		for _, n := range ns {
			for _, coe := range both {
				out = append(out, withCancel(mk(n, coe, [][]int{nil, {0}, {0}}, []string{Err, OK, OK}), false, true))
				out = append(out, withCancel(mk(n, coe, [][]int{nil, nil, nil}, []string{Goexit, OK, OK}), false, true))
			}
		}
	}
	return out
}

// secondCaller: two threads enqueue concurrently.
func secondCaller(ns []int) []Scenario {
	var out []Scenario
	for _, n := range ns {
		for _, coe := range both {
			for _, v := range Vectors(3, []string{OK, Err}, 1) {
				s := mk(n, coe, [][]int{nil, nil, nil}, v)
				s.Jobs[1].Caller = 1
				out = append(out, s)
				s2 := mk(n, coe, [][]int{nil, nil, {1}}, v)
				s2.Jobs[1].Caller = 1
				s2.Jobs[2].Caller = 1
				out = append(out, s2)
			}
		}
	}
	return out
}

// goexitCapacity: N barrier jobs that must all run at once, preceded by g jobs
// that kill their worker goroutine.
func goexitCapacity(ns []int, maxG int) []Scenario {
	var out []Scenario
	for _, n := range ns {
		for g := 0; g <= maxG; g++ {
			for _, coe := range []bool{true} {
				s := Scenario{N: n, COE: coe}
				for i := 0; i < g; i++ {
					s.Jobs = append(s.Jobs, JobSpec{Out: Goexit})
				}
				for i := 0; i < n; i++ {
					s.Jobs = append(s.Jobs, JobSpec{Out: Barrier})
				}
				out = append(out, s)
			}
		}
	}
	return out
}

// wideLimits are the limits of the boundary probes: one more than every small
// integer literal of the scheduler's own sources (a literal is where a clamp,
// a buffer size or a batch size would sit), plus a fixed ladder.
func wideLimits() []int {
	set := map[int]bool{5: true, 17: true, 65: true, 129: true}
	repo := os.Getenv("VERIF_REPO")
	if repo == "" {
		repo = "/repo"
	}
	files, _ := filepath.Glob(filepath.Join(repo, "scheduler", "*.go"))
	files = append(files, filepath.Join(repo, "scheduler.go"))
	fset := token.NewFileSet()
	for _, f := range files {
		if strings.HasSuffix(f, "_test.go") {
			continue
		}
		af, err := parser.ParseFile(fset, f, nil, 0)
		if err != nil {
			continue
		}
		ast.Inspect(af, func(n ast.Node) bool {
			if l, ok := n.(*ast.BasicLit); ok && l.Kind == token.INT {
				if v, err := strconv.ParseInt(l.Value, 0, 32); err == nil && v >= 3 && v <= 256 {
					set[int(v)+1] = true
				}
			}
			return true
		})
	}
	var out []int
	for v := range set {
		out = append(out, v)
	}
	sort.Ints(out)
	return out
}

// wideCapacity: with limit N, N jobs that must all be running at once (and one
// more behind them); the capacity clause of C03 at limits beyond the ones the
// exhaustive families reach.
func wideCapacity(probe int) []Scenario {
	var out []Scenario
	for _, n := range wideLimits() {
		s := Scenario{N: n, COE: true, Probe: probe}
		for i := 0; i < n; i++ {
			s.Jobs = append(s.Jobs, JobSpec{Out: Barrier})
		}
		s.Jobs = append(s.Jobs, JobSpec{Out: OK})
		out = append(out, s)
	}
	return out
}

// ownGoexit: a job that cancels its own per-job context and then kills its
// goroutine, followed by jobs (live context) that need the full capacity.
func ownGoexit(ns []int) []Scenario {
	var out []Scenario
	for _, n := range ns {
		for _, coe := range both {
			if coe {
				// (fail-fast would abandon a barrier job that already started)
				s := Scenario{N: n, COE: coe}
				s.Jobs = append(s.Jobs, JobSpec{Out: OwnGoexit, OwnLive: true})
				for i := 0; i < n; i++ {
					s.Jobs = append(s.Jobs, JobSpec{Out: Barrier})
				}
				out = append(out, s)
			}
			s2 := Scenario{N: n, COE: coe}
			s2.Jobs = append(s2.Jobs, JobSpec{Out: OwnGoexit, OwnLive: true}, JobSpec{Out: OK}, JobSpec{Out: OK, Deps: []int{1}})
			out = append(out, s2)
		}
	}
	return out
}

// defaultLimit: Concurrency unset (max(GOMAXPROCS,4) workers), failure and
// cancellation with other jobs in flight.
func defaultLimit() []Scenario {
	var out []Scenario
	add := func(s Scenario) { s.GOMAXPROCS = 1; out = append(out, s) }
	for _, coe := range both {
		add(mk(0, coe, [][]int{nil, nil}, []string{OK, Err}))
		add(mk(0, coe, [][]int{nil, nil}, []string{Err, OK}))
		add(mk(0, coe, [][]int{nil, nil}, []string{Gate, Err}))
	}
	add(withCancel(mk(0, false, [][]int{nil, nil}, []string{Gate, CancelOK}), false, false))
	add(withCancel(mk(0, false, [][]int{nil}, []string{OK}), true, false))
	return out
}

// Family returns the scenario list of a property check at a tier.
func Family(prop, tier string) ([]Scenario, error) {
	th := tier == "thorough"
	okerr := []string{OK, Err}
	n12 := []int{1, 2}
	var out []Scenario
	switch prop {
	case "C01":
		out = append(out, Core(1, n12, both, okerr, -1)...)
		out = append(out, Core(2, n12, both, okerr, -1)...)
		out = append(out, Core(3, n12, both, okerr, -1)...)
		out = append(out, dupDeps(n12)...)
		if !th {
			out = append(out, shapes([][][]int{Chain4, Diamond4, FanIn4, FanOut4, JoinTail4}, []int{2}, both, okerr, 1)...)
		} else {
			out = append(out, Core(4, n12, both, okerr, 1)...)
			out = append(out, shapes([][][]int{Diamond5, FanIn5}, []int{2}, both, okerr, 0)...)
			out = append(out, Core(3, []int{3}, both, okerr, 1)...)
		}
	case "C03":
		out = append(out, Core(2, n12, both, okerr, -1)...)
		out = append(out, Core(3, n12, []bool{false}, []string{OK}, -1)...)
		out = append(out, shapes([][][]int{Indep4}, n12, []bool{true}, []string{OK}, -1)...)
		out = append(out, goexitCapacity(n12, 2)...)
		out = append(out, ownGoexit(n12)...)
		if th {
			out = append(out, wideCapacity(256)...)
		} else {
			out = append(out, wideCapacity(24)...)
		}
		// census: same N, growing number of independent jobs, with and without Goexit
		for _, n := range n12 {
			for k := n + 1; k <= n+3 && k <= 4; k++ {
				for g := 0; g <= 1; g++ {
					s := Scenario{N: n, COE: true, Census: fmt.Sprintf("N=%d goexits=%d", n, g)}
					for i := 0; i < k; i++ {
						o := OK
						if i < g {
							o = Goexit
						}
						s.Jobs = append(s.Jobs, JobSpec{Out: o})
					}
					out = append(out, s)
				}
			}
		}
		// census with skipped jobs: one failure and k-1 dependents; cancelled before the call
		for _, n := range n12 {
			for k := 2; k <= 4; k++ {
				s := Scenario{N: n, COE: true, Census: fmt.Sprintf("N=%d fail+dependents", n)}
				s.Jobs = append(s.Jobs, JobSpec{Out: Err})
				for i := 1; i < k; i++ {
					s.Jobs = append(s.Jobs, JobSpec{Out: OK, Deps: []int{0}})
				}
				out = append(out, s)
				c := Scenario{N: n, COE: true, Census: fmt.Sprintf("N=%d precancelled", n)}
				for i := 0; i < k; i++ {
					c.Jobs = append(c.Jobs, JobSpec{Out: OK})
				}
				out = append(out, withCancel(c, true, false))
			}
		}
		// default limit
		for _, g := range []int{1, 8} {
			s := mk(0, false, [][]int{nil, nil}, []string{OK, OK})
			s.GOMAXPROCS = g
			if g == 8 {
				s.Jobs = s.Jobs[:1]
			}
			out = append(out, s)
		}
		if th {
			out = append(out, goexitCapacity([]int{3}, 1)...)
			out = append(out, shapes([][][]int{Indep5}, []int{2}, []bool{true}, []string{OK}, -1)...)
			out = append(out, Core(3, []int{3}, []bool{false}, []string{OK}, -1)...)
		}
	case "C05", "C06":
		outs := []string{OK, Err, Goexit}
		out = append(out, Core(1, n12, both, outs, -1)...)
		out = append(out, Core(2, n12, both, outs, -1)...)
		if !th {
			out = append(out, Core(3, n12, both, outs, 1)...)
			out = append(out, shapes([][][]int{Indep4, Diamond4}, []int{2}, both, okerr, 1)...)
		} else {
			out = append(out, Core(3, n12, both, outs, -1)...)
			out = append(out, Core(4, []int{2}, both, okerr, 1)...)
			out = append(out, shapes([][][]int{Indep5}, []int{2}, []bool{false}, okerr, 1)...)
		}
		out = append(out, cancelFamily(2, n12, th)...)
		out = append(out, secondCaller([]int{2})...)
		out = append(out, ownGoexit(n12)...)
		out = append(out, defaultLimit()...)
		for _, s := range Core(2, n12, both, outs, 1) {
			out = append(out, withEmitter(s, 1))
		}
		// the emitter (user code running on the scheduler loop's goroutine) kills that goroutine
		for _, n := range n12 {
			for _, coe := range both {
				for _, g := range [][][]int{{nil}, {nil, nil}, {nil, {0}}} {
					v := make([]string, len(g))
					for i := range v {
						v[i] = OK
					}
					e := withEmitter(mk(n, coe, g, v), 1)
					e.EmitGoexit = true
					out = append(out, e)
				}
			}
		}
		// jobs carry a context that gets cancelled, Wait is given a live one
		for _, n := range n12 {
			for _, coe := range both {
				for _, g := range [][][]int{{nil, {0}}, {nil, nil, {0, 1}}} {
					v := make([]string, len(g))
					for i := range v {
						v[i] = OK
					}
					a := withCancel(mk(n, coe, g, v), true, false)
					a.WaitBg = true
					b := withCancel(mk(n, coe, g, v), false, true)
					b.WaitBg = true
					out = append(out, a, b)
				}
			}
		}
		if prop == "C06" {
			for _, s := range Core(2, []int{2}, both, okerr, 1) {
				s.Twice = true
				out = append(out, s)
			}
		}
		if th {
			out = append(out, cancelFamily(3, []int{2}, th)...)
		}
	case "C07":
		out = append(out, Core(1, n12, []bool{false}, okerr, -1)...)
		out = append(out, Core(2, n12, []bool{false}, []string{OK, Err, Goexit}, -1)...)
		out = append(out, Core(3, n12, []bool{false}, okerr, -1)...)
		out = append(out, shapes([][][]int{Indep4, Diamond4, FanIn4}, []int{2}, []bool{false}, okerr, 1)...)
		for _, s := range dupDeps(n12) {
			if !s.COE {
				out = append(out, s)
			}
		}
		for _, s := range cancelFamily(2, n12, th) {
			if !s.COE {
				out = append(out, s)
			}
		}
		// a task failing with an error that wraps a context error while the
		// directive's context is alive; a job carrying its own cancelled context
		for _, n := range n12 {
			for _, g := range [][][]int{{nil}, {nil, {0}}, {nil, nil}} {
				for _, v := range Vectors(len(g), []string{OK, ErrCtx}, 1) {
					out = append(out, mk(n, false, g, v), withCancel(mk(n, false, g, v), false, false))
				}
				v := make([]string, len(g))
				for i := range v {
					v[i] = OK
				}
				s := mk(n, false, g, v)
				s.Jobs[0].OwnCtx = true
				out = append(out, s)
			}
		}
		for _, n := range n12 {
			for _, v := range Vectors(2, []string{OK, ErrSame, ErrWrap}, -1) {
				out = append(out, mk(n, false, [][]int{nil, nil}, v))
			}
		}
		// the emitter kills the scheduler loop's goroutine before every job has run: nil would be a lie
		out = append(out, emitGoexit(n12, false)...)
		if th {
			out = append(out, Core(4, n12, []bool{false}, okerr, 2)...)
			out = append(out, Core(3, []int{3}, []bool{false}, okerr, -1)...)
		}
	case "C08":
		out = append(out, emitGoexit(n12, true)...)
		out = append(out, Core(1, n12, []bool{true}, okerr, -1)...)
		out = append(out, Core(2, n12, []bool{true}, []string{OK, Err, Goexit}, -1)...)
		out = append(out, Core(3, n12, []bool{true}, okerr, -1)...)
		out = append(out, shapes([][][]int{Indep4, Diamond4, FanOut4, JoinTail4, Chain4}, []int{2}, []bool{true}, okerr, 1)...)
		for _, s := range dupDeps(n12) {
			if s.COE {
				out = append(out, s)
			}
		}
		for _, s := range cancelFamily(2, n12, th) {
			if s.COE {
				out = append(out, s)
			}
		}
		// several jobs failing with the same error value, or with an error that wraps it
		for _, n := range n12 {
			for _, v := range Vectors(2, []string{OK, Err, ErrSame, ErrWrap}, -1) {
				out = append(out, mk(n, true, [][]int{nil, nil}, v))
			}
			for _, v := range Vectors(3, []string{ErrSame, ErrWrap}, -1) {
				out = append(out, mk(n, true, [][]int{nil, nil, nil}, v))
			}
			out = append(out, mk(n, true, [][]int{nil, nil, {0}}, []string{ErrSame, ErrSame, OK}))
		}
		if th {
			out = append(out, Core(4, n12, []bool{true}, okerr, 2)...)
			out = append(out, Core(3, []int{3}, []bool{true}, okerr, -1)...)
		}
	case "C09":
		out = append(out, cancelFamily(1, n12, th)...)
		out = append(out, cancelFamily(2, n12, th)...)
		if th {
			out = append(out, cancelFamily(3, n12, th)...)
		} else {
			for _, s := range cancelFamily(3, []int{2}, false) {
				if len(s.Jobs) == 3 && !s.Canceller && !s.PreCancel {
					out = append(out, s)
				}
			}
		}
	case "C19":
		for k := 1; k <= 3; k++ {
			for _, s := range Core(k, n12, both, okerr, 1) {
				if k == 3 && s.N == 2 && !th {
					if len(s.Jobs[2].Deps) == 0 && len(s.Jobs[1].Deps) == 0 && s.Jobs[0].Out == OK && s.Jobs[1].Out == OK && s.Jobs[2].Out == OK {
						out = append(out, withEmitter(s, 1))
					}
					continue
				}
				out = append(out, withEmitter(s, 1))
				if k <= 2 {
					out = append(out, withEmitter(s, 2))
				}
				if th && k <= 2 {
					out = append(out, withEmitter(s, 3))
				}
			}
		}
		// jobs whose context is already done when they reach the ready list, reports in between
		for _, n := range n12 {
			for _, coe := range both {
				a := mk(n, coe, [][]int{nil, nil}, []string{OK, OK})
				a.Jobs[0].OwnCtx = true
				out = append(out, withEmitter(a, 1), withEmitter(a, 2))
				b := mk(n, coe, [][]int{nil, nil, nil}, []string{OK, OK, Gate})
				b.Jobs[0].OwnCtx = true
				b.Jobs[1].OwnCtx = true
				if n == 2 {
					out = append(out, withEmitter(b, 1))
				}
				c := withCancel(mk(n, coe, [][]int{nil, {0}}, []string{OK, OK}), true, false)
				out = append(out, withEmitter(c, 1))
				d := mk(n, coe, [][]int{nil, nil}, []string{CancelOK, OK})
				out = append(out, withEmitter(d, 1))
			}
		}
	case "C12":
		out = append(out, Core(2, n12, both, okerr, -1)...)
		out = append(out, Core(3, []int{2}, both, okerr, 1)...)
		out = append(out, cancelFamily(2, []int{2}, false)...)
		out = append(out, secondCaller([]int{2})...)
	default:
		return nil, fmt.Errorf("no scheduler-level family for %s", prop)
	}
	for i := range out {
		out[i].Name = fmt.Sprintf("%s/%04d", prop, i)
	}
	return out, nil
}

// emitGoexit: all-ok graphs whose state emitter ends the scheduler loop's goroutine on its first report
func emitGoexit(ns []int, coe bool) []Scenario {
	var out []Scenario
	for _, n := range ns {
		for _, g := range [][][]int{{nil}, {nil, nil}, {nil, {0}}, {nil, nil, {0, 1}}} {
			v := make([]string, len(g))
			for i := range v {
				v[i] = OK
			}
			e := withEmitter(mk(n, coe, g, v), 1)
			e.EmitGoexit = true
			out = append(out, e)
		}
	}
	return out
}
