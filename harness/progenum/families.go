package progenum

import (
	"fmt"
	"sort"
	"strings"
)

// ---------------------------------------------------------------- exhaustive structural enumeration

func multisets(n, max int) [][]int {
	// all non-decreasing sequences over 0..n-1 of length 0..max
	res := [][]int{{}}
	var rec func(cur []int, from int)
	rec = func(cur []int, from int) {
		if len(cur) == max {
			return
		}
		for t := from; t < n; t++ {
			nc := append(append([]int{}, cur...), t)
			res = append(res, nc)
			rec(nc, t)
		}
	}
	rec(nil, 0)
	return res
}

func subsets(n, max int) [][]int {
	var res [][]int
	for m := 0; m < 1<<n; m++ {
		var s []int
		for b := 0; b < n; b++ {
			if m&(1<<b) != 0 {
				s = append(s, b)
			}
		}
		if max < 0 || len(s) <= max {
			res = append(res, s)
		}
	}
	return res
}

func encodeFlow(f *Flow, perm []int) string {
	mp := func(xs []int) []int {
		o := make([]int, len(xs))
		for i, x := range xs {
			o[i] = perm[x]
		}
		return o
	}
	srt := func(xs []int) []int { o := append([]int{}, xs...); sort.Ints(o); return o }
	var ts []string
	for _, t := range f.Tasks {
		s := fmt.Sprintf("%v>%v/%s", srt(mp(t.In)), srt(mp(t.Out)), t.Invoke)
		if t.Pred != nil {
			s += fmt.Sprintf("?%v", srt(mp(t.Pred.In)))
		}
		ts = append(ts, s)
	}
	sort.Strings(ts)
	return fmt.Sprintf("P%v R%v %s", srt(mp(f.Params)), srt(mp(f.Results)), strings.Join(ts, ";"))
}

func permutations(n int) [][]int {
	if n == 0 {
		return [][]int{{}}
	}
	var res [][]int
	for _, p := range permutations(n - 1) {
		for i := 0; i <= len(p); i++ {
			np := append(append(append([]int{}, p[:i]...), n-1), p[i:]...)
			res = append(res, np)
		}
	}
	return res
}

// EnumFlows returns every flow structure with exactly nt types in use,
// 1..maxTasks tasks (each with at most 2 inputs and 2 outputs, Invoke absent
// or true), every Params and Results subset, modulo renaming of types and
// reordering of tasks. Ill-formed structures are included.
func EnumFlows(nt, maxTasks int, withPred bool) []*Flow {
	ins := multisets(nt, 2)
	outs := subsets(nt, 2)
	var tasks []Task
	for _, in := range ins {
		for _, out := range outs {
			for _, inv := range []string{"", "true"} {
				tasks = append(tasks, Task{In: in, Out: out, Invoke: inv})
				if withPred {
					for _, pin := range multisets(nt, 1) {
						tasks = append(tasks, Task{In: in, Out: out, Invoke: inv, Pred: &Pred{In: pin}})
					}
				}
			}
		}
	}
	perms := permutations(nt)
	seen := map[string]bool{}
	var res []*Flow
	emit := func(f *Flow) {
		// all nt types must be mentioned
		used := map[int]bool{}
		for _, x := range f.Params {
			used[x] = true
		}
		for _, x := range f.Results {
			used[x] = true
		}
		for _, t := range f.Tasks {
			for _, x := range t.In {
				used[x] = true
			}
			for _, x := range t.Out {
				used[x] = true
			}
			if t.Pred != nil {
				for _, x := range t.Pred.In {
					used[x] = true
				}
			}
		}
		if len(used) != nt {
			return
		}
		best := ""
		for _, p := range perms {
			e := encodeFlow(f, p)
			if best == "" || e < best {
				best = e
			}
		}
		if seen[best] {
			return
		}
		seen[best] = true
		res = append(res, f)
	}
	types := make([]string, nt)
	for i := range types {
		types[i] = SpStruct
	}
	for _, ps := range subsets(nt, -1) {
		for _, rs := range subsets(nt, -1) {
			for a := range tasks {
				emit(&Flow{Types: types, Params: ps, Results: rs, Tasks: []Task{tasks[a]}})
				if maxTasks >= 2 {
					for b := a; b < len(tasks); b++ {
						emit(&Flow{Types: types, Params: ps, Results: rs, Tasks: []Task{tasks[a], tasks[b]}})
					}
				}
			}
		}
	}
	return res
}

// EnumUnary3 returns all 3-task flows in which every task has exactly one
// output and at most one input over nt types (chains, forks, joins via
// Params, cycles of every length), every Params/Results subset, modulo
// renaming.
func EnumUnary3(nt int) []*Flow {
	var tasks []Task
	for out := 0; out < nt; out++ {
		tasks = append(tasks, Task{Out: []int{out}})
		for in := 0; in < nt; in++ {
			tasks = append(tasks, Task{In: []int{in}, Out: []int{out}})
		}
	}
	perms := permutations(nt)
	seen := map[string]bool{}
	var res []*Flow
	types := make([]string, nt)
	for i := range types {
		types[i] = SpStruct
	}
	for _, ps := range subsets(nt, -1) {
		for _, rs := range subsets(nt, 1) {
			for a := range tasks {
				for b := a; b < len(tasks); b++ {
					for c := b; c < len(tasks); c++ {
						f := &Flow{Types: types, Params: ps, Results: rs, Tasks: []Task{tasks[a], tasks[b], tasks[c]}}
						best := ""
						for _, p := range perms {
							if e := encodeFlow(f, p); best == "" || e < best {
								best = e
							}
						}
						if !seen[best] {
							seen[best] = true
							res = append(res, f)
						}
					}
				}
			}
		}
	}
	return res
}

// ---------------------------------------------------------------- named shapes

func st(n int) []string {
	t := make([]string, n)
	for i := range t {
		t[i] = SpStruct
	}
	return t
}

// Shapes are well-formed base flows used by the run-time families.
func Shapes() map[string]*Flow {
	return map[string]*Flow{
		"single": {Types: st(2), Params: []int{0}, Results: []int{1}, Tasks: []Task{{In: []int{0}, Out: []int{1}, Err: true}}},
		"source": {Types: st(1), Results: []int{0}, Tasks: []Task{{Out: []int{0}, Err: true}}},
		"chain2": {Types: st(3), Params: []int{0}, Results: []int{2}, Tasks: []Task{{In: []int{0}, Out: []int{1}, Err: true}, {In: []int{1}, Out: []int{2}, Err: true}}},
		"chain3": {Types: st(4), Params: []int{0}, Results: []int{3}, Tasks: []Task{{In: []int{0}, Out: []int{1}, Err: true}, {In: []int{1}, Out: []int{2}, Err: true}, {In: []int{2}, Out: []int{3}, Err: true}}},
		"fork":   {Types: st(3), Params: []int{0}, Results: []int{1, 2}, Tasks: []Task{{In: []int{0}, Out: []int{1}, Err: true}, {In: []int{0}, Out: []int{2}, Err: true}}},
		"join":   {Types: st(3), Results: []int{2}, Tasks: []Task{{Out: []int{0}, Err: true}, {Out: []int{1}, Err: true}, {In: []int{0, 1}, Out: []int{2}, Err: true}}},
		"multi":  {Types: st(4), Params: []int{0}, Results: []int{3}, Tasks: []Task{{In: []int{0}, Out: []int{1, 2}, Err: true}, {In: []int{1, 2}, Out: []int{3}, Err: true}}},
		"invoke": {Types: st(2), Params: []int{0}, Results: []int{1}, Tasks: []Task{{In: []int{0}, Out: []int{1}, Err: true}, {In: []int{1}, Invoke: "true", Err: true}}},
		"indep3": {Types: st(3), Results: []int{0, 1, 2}, Tasks: []Task{{Out: []int{0}, Err: true}, {Out: []int{1}, Err: true}, {Out: []int{2}, Err: true}}},
		"pthru":  {Types: st(2), Params: []int{0}, Results: []int{0, 1}, Tasks: []Task{{In: []int{0}, Out: []int{1}}}},
		// dup3: one task consumes two results of one provider plus one of another
		// (the generated dependency list names the first provider twice)
		// dupres: the same type requested twice by cff.Results
		// midres: a cff.Results target whose type another task consumes too; pjoin: two cff.Params values
		"midres": {Types: st(3), Params: []int{0}, Results: []int{1, 2}, Tasks: []Task{{In: []int{0}, Out: []int{1}, Err: true}, {In: []int{1}, Out: []int{2}, Err: true}}},
		"pjoin":  {Types: st(3), Params: []int{0, 1}, Results: []int{2}, Tasks: []Task{{In: []int{0, 1}, Out: []int{2}, Err: true}}},
		"dupres": {Types: st(2), Params: []int{0}, Results: []int{1, 1}, Tasks: []Task{{In: []int{0}, Out: []int{1}, Err: true}}},
		"dup3":   {Types: st(4), Results: []int{3}, Tasks: []Task{{Out: []int{0, 1}, Err: true}, {Out: []int{2}, Err: true}, {In: []int{0, 1, 2}, Out: []int{3}, Err: true}}},
	}
}

// Shape returns a deep copy of a named shape.
func Shape(name string) *Flow {
	var f *Flow
	if name == "diamond" {
		f = &Flow{Types: st(5), Params: []int{0}, Results: []int{4}, Tasks: []Task{
			{In: []int{0}, Out: []int{1}, Err: true},
			{In: []int{1}, Out: []int{2}, Err: true},
			{In: []int{1}, Out: []int{3}, Err: true},
			{In: []int{2, 3}, Out: []int{4}, Err: true}}}
	} else if strings.HasPrefix(name, "rep:") {
		// rep:<pattern>: one task whose parameter list repeats a type, e.g. rep:001 = func(T0, T0, T1) T2
		f = &Flow{Types: st(3), Results: []int{2}}
		for ty := 0; ty < 2; ty++ {
			if strings.ContainsRune(name[4:], rune('0'+ty)) {
				f.Tasks = append(f.Tasks, Task{Out: []int{ty}, Err: true})
			}
		}
		last := Task{Out: []int{2}, Err: true}
		for _, c := range name[4:] {
			last.In = append(last.In, int(c-'0'))
		}
		f.Tasks = append(f.Tasks, last)
	} else {
		f = Shapes()[name]
	}
	if f == nil {
		panic("unknown shape " + name)
	}
	return f.Clone()
}

// Clone deep-copies a flow.
func (f *Flow) Clone() *Flow {
	g := *f
	g.Types = append([]string{}, f.Types...)
	g.Params = append([]int{}, f.Params...)
	g.Results = append([]int{}, f.Results...)
	g.Order = append([]string{}, f.Order...)
	g.Tasks = nil
	for _, t := range f.Tasks {
		nt := t
		nt.In = append([]int{}, t.In...)
		nt.Out = append([]int{}, t.Out...)
		if t.Pred != nil {
			p := *t.Pred
			p.In = append([]int{}, t.Pred.In...)
			nt.Pred = &p
		}
		g.Tasks = append(g.Tasks, nt)
	}
	return &g
}

// Clone deep-copies a parallel.
func (p *Parallel) Clone() *Parallel {
	q := *p
	q.Items = nil
	for _, it := range p.Items {
		ni := it
		if it.End != nil {
			e := *it.End
			ni.End = &e
		}
		q.Items = append(q.Items, ni)
	}
	return &q
}

// ShapeNames lists the shapes in a fixed order.
func ShapeNames() []string {
	return []string{"single", "source", "chain2", "chain3", "fork", "join", "diamond", "multi", "invoke", "indep3", "pthru", "dup3", "dupres"}
}

// ---------------------------------------------------------------- listing orders

// Orders returns every permutation of the option list of f (capped at max).
func Orders(f *Flow, max int) [][]string {
	base := DefaultOrder(f)
	var res [][]string
	for _, p := range permutations(len(base)) {
		o := make([]string, len(base))
		for i, j := range p {
			o[i] = base[j]
		}
		res = append(res, o)
		if max > 0 && len(res) >= max {
			break
		}
	}
	return res
}

// TaskOrders returns listing orders in which the tasks appear in every
// permutation (all n! for n tasks), each with the non-task options in front,
// behind, and spread between the tasks.
func TaskOrders(f *Flow) [][]string {
	base := DefaultOrder(f)
	var tasks, others []string
	for _, t := range base {
		if strings.HasPrefix(t, "T") {
			tasks = append(tasks, t)
		} else {
			others = append(others, t)
		}
	}
	var res [][]string
	seen := map[string]bool{}
	add := func(o []string) {
		k := strings.Join(o, ",")
		if !seen[k] {
			seen[k] = true
			res = append(res, o)
		}
	}
	for _, p := range permutations(len(tasks)) {
		pt := make([]string, len(tasks))
		for i, j := range p {
			pt[i] = tasks[j]
		}
		add(append(append([]string{}, others...), pt...))
		add(append(append([]string{}, pt...), others...))
		// spread: one option after each task, the rest in front
		var sp []string
		rest := append([]string{}, others...)
		for i := len(pt) - 1; i >= 0 && len(rest) > 0; i-- {
			_ = i
		}
		k := 0
		for _, t := range pt {
			sp = append(sp, t)
			if k < len(rest) {
				sp = append(sp, rest[len(rest)-1-k])
				k++
			}
		}
		for ; k < len(rest); k++ {
			sp = append([]string{rest[len(rest)-1-k]}, sp...)
		}
		add(sp)
	}
	return res
}

// ---------------------------------------------------------------- predicates / fallbacks

// WithPredFallback returns variants of base where every subset of tasks
// carries a predicate (kinds: no input, shares the task's first input, own
// extra input = a Params type the task does not use) and/or a fallback.
func WithPredFallback(base *Flow, predKinds []string, maxMarked int) []*Flow {
	var res []*Flow
	n := len(base.Tasks)
	// choices per task: 0 none, 1..len(predKinds) predicate kind, +fallback flag
	type choice struct {
		pk string
		fb bool
	}
	var choices []choice
	choices = append(choices, choice{"", false})
	for _, pk := range predKinds {
		choices = append(choices, choice{pk, false}, choice{pk, true})
	}
	choices = append(choices, choice{"", true})
	var rec func(i int, cur []choice)
	rec = func(i int, cur []choice) {
		if i == n {
			marked := 0
			for _, c := range cur {
				if c.pk != "" || c.fb {
					marked++
				}
			}
			if marked == 0 || (maxMarked > 0 && marked > maxMarked) {
				return
			}
			f := base.Clone()
			ok := true
			for ti, c := range cur {
				t := &f.Tasks[ti]
				if c.fb {
					// (a task without results takes the value-less cff.FallbackWith())
					if !t.Err || (len(t.Out) == 0 && t.Invoke != "true") {
						ok = false
						break
					}
					t.Fallback = true
				}
				switch c.pk {
				case "none":
					t.Pred = &Pred{}
				case "nonectx":
					t.Pred = &Pred{Ctx: true}
				case "shared":
					if len(t.In) == 0 {
						ok = false
					} else {
						t.Pred = &Pred{In: []int{t.In[0]}}
					}
				case "own":
					// an extra Params type only the predicate consumes
					nt := len(f.Types)
					f.Types = append(f.Types, SpStruct)
					f.Params = append(f.Params, nt)
					t.Pred = &Pred{In: []int{nt}}
				case "upstream":
					// the predicate consumes the output of another task that the task itself does not use
					found := false
					for oj, ot := range f.Tasks {
						if oj == ti || len(ot.Out) == 0 {
							continue
						}
						dep := false
						for _, in := range t.In {
							if in == ot.Out[0] {
								dep = true
							}
						}
						// must not create a cycle: ot must not depend on t
						cyc := false
						for _, in := range ot.In {
							for _, o := range t.Out {
								if in == o {
									cyc = true
								}
							}
						}
						if !dep && !cyc {
							t.Pred = &Pred{In: []int{ot.Out[0]}}
							found = true
							break
						}
					}
					if !found {
						ok = false
					}
				}
				if !ok {
					break
				}
			}
			if ok {
				if wf, _ := f.WellFormed(); wf {
					res = append(res, f)
				}
			}
			return
		}
		for _, c := range choices {
			rec(i+1, append(cur, c))
		}
	}
	rec(0, nil)
	return res
}

// ---------------------------------------------------------------- parallel programs

// ParItems returns the item variants of a kind.
func ParItems(kind string, full bool) []Item {
	var res []Item
	bools := []bool{false, true}
	switch kind {
	case "task":
		for _, c := range bools {
			for _, e := range bools {
				res = append(res, Item{Kind: "task", Ctx: c, Err: e})
			}
		}
	case "tasks":
		res = append(res, Item{Kind: "tasks", Count: 2, Err: true}, Item{Kind: "tasks", Count: 2, Ctx: true})
	case "slice":
		for _, idx := range bools {
			for _, c := range bools {
				for _, e := range bools {
					if !full && c != e {
						continue
					}
					res = append(res, Item{Kind: "slice", Idx: idx, Ctx: c, Err: e})
					res = append(res, Item{Kind: "slice", Idx: idx, Ctx: c, Err: e, End: &End{Ctx: c, Err: e}})
				}
			}
		}
		res = append(res, Item{Kind: "slice", Idx: true, Err: true, Named: true}, Item{Kind: "slice", Idx: true, Err: true, Named: true, End: &End{Err: true}})
		if full {
			res = append(res, Item{Kind: "slice", Idx: true, Err: true, End: &End{Ctx: true}}, Item{Kind: "slice", Idx: true, Ctx: true, End: &End{Err: true}})
		}
	case "map":
		for _, c := range bools {
			for _, e := range bools {
				if !full && c != e {
					continue
				}
				res = append(res, Item{Kind: "map", Ctx: c, Err: e})
				res = append(res, Item{Kind: "map", Ctx: c, Err: e, End: &End{Ctx: c, Err: e}})
			}
		}
		res = append(res, Item{Kind: "map", Err: true, Named: true, End: &End{Err: true}})
	}
	return res
}

// Pars returns parallel programs with up to maxItems items.
func Pars(maxItems int, full bool) []*Parallel {
	kinds := []string{"task", "tasks", "slice", "map"}
	var res []*Parallel
	var singles []Item
	for _, k := range kinds {
		singles = append(singles, ParItems(k, full)...)
	}
	for _, it := range singles {
		res = append(res, &Parallel{Items: []Item{it}})
	}
	if maxItems >= 2 {
		// pairs: one representative of each kind pair, error-returning where possible
		rep := map[string][]Item{
			"task":  {{Kind: "task", Err: true}, {Kind: "task", Ctx: true}},
			"tasks": {{Kind: "tasks", Count: 2, Err: true}},
			"slice": {{Kind: "slice", Idx: true, Err: true}, {Kind: "slice", Idx: true, Ctx: true, Err: true, End: &End{Err: true}}},
			"map":   {{Kind: "map", Err: true}, {Kind: "map", Ctx: true, Err: true, End: &End{Ctx: true, Err: true}}},
		}
		for i, a := range kinds {
			for _, b := range kinds[i:] {
				for _, ia := range rep[a] {
					for _, ib := range rep[b] {
						res = append(res, &Parallel{Items: []Item{ia, ib}})
					}
				}
			}
		}
	}
	if maxItems >= 3 {
		res = append(res,
			&Parallel{Items: []Item{{Kind: "task", Err: true}, {Kind: "slice", Idx: true, Err: true, End: &End{Err: true}}, {Kind: "map", Err: true, End: &End{Err: true}}}},
			&Parallel{Items: []Item{{Kind: "slice", Idx: true, Err: true, End: &End{Err: true}}, {Kind: "slice", Err: true, Idx: true, Ctx: true, End: &End{Ctx: true, Err: true}}, {Kind: "tasks", Count: 2, Err: true}}},
		)
	}
	for _, p := range res {
		ns, nm := 0, 0
		for i := range p.Items {
			switch p.Items[i].Kind {
			case "slice":
				p.Items[i].Coll = ns
				ns++
			case "map":
				p.Items[i].Coll = nm
				nm++
			}
		}
	}
	return res
}

// HasEnd reports whether any item has an End hook.
func (p *Parallel) HasEnd() bool {
	for _, it := range p.Items {
		if it.End != nil {
			return true
		}
	}
	return false
}
