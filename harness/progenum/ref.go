package progenum

import (
	"fmt"

	"verif/harness/probe"
)

// ---------------------------------------------------------------- well-formedness

// WellFormed decides, from cff's documented rules, whether the tool must
// accept the flow. The returned reason names the first violated rule.
func (f *Flow) WellFormed() (bool, string) {
	if len(f.Tasks) == 0 {
		return false, "no tasks"
	}
	providers := map[int]int{} // type -> provider (-1: Params, i: task i)
	seenParam := map[int]bool{}
	for _, t := range f.Params {
		if seenParam[t] {
			return false, fmt.Sprintf("type %d provided twice in Params", t)
		}
		seenParam[t] = true
		providers[t] = -1
	}
	for i, t := range f.Tasks {
		seenOut := map[int]bool{}
		for _, o := range t.Out {
			if _, dup := providers[o]; dup || seenOut[o] {
				return false, fmt.Sprintf("type %d provided twice", o)
			}
			seenOut[o] = true
		}
		for _, o := range t.Out {
			providers[o] = i
		}
		if len(t.Out) == 0 && t.Invoke != "true" {
			return false, fmt.Sprintf("task %d has no outputs and no Invoke(true)", i)
		}
		if len(t.Out) > 0 && t.Invoke == "true" {
			return false, fmt.Sprintf("task %d has outputs and Invoke(true)", i)
		}
	}
	consumed := map[int]bool{}
	need := func(t int, who string) (bool, string) {
		if _, ok := providers[t]; !ok {
			return false, fmt.Sprintf("no provider for type %d needed by %s", t, who)
		}
		consumed[t] = true
		return true, ""
	}
	for i, t := range f.Tasks {
		for _, in := range t.In {
			if ok, why := need(in, fmt.Sprintf("task %d", i)); !ok {
				return false, why
			}
		}
		if t.Pred != nil {
			for _, in := range t.Pred.In {
				if ok, why := need(in, fmt.Sprintf("predicate of task %d", i)); !ok {
					return false, why
				}
			}
		}
	}
	for _, r := range f.Results {
		if ok, why := need(r, "Results"); !ok {
			return false, why
		}
	}
	for _, t := range f.Params {
		if !consumed[t] {
			return false, fmt.Sprintf("Params value of type %d is not consumed", t)
		}
	}
	for i, t := range f.Tasks {
		for _, o := range t.Out {
			if !consumed[o] {
				return false, fmt.Sprintf("output %d of task %d is not consumed", o, i)
			}
		}
	}
	// cycles over tasks (a predicate's inputs are dependencies of its task)
	deps := func(i int) []int {
		var d []int
		t := f.Tasks[i]
		ins := append([]int{}, t.In...)
		if t.Pred != nil {
			ins = append(ins, t.Pred.In...)
		}
		for _, in := range ins {
			if p := providers[in]; p >= 0 {
				d = append(d, p)
			}
		}
		return d
	}
	state := make([]int, len(f.Tasks))
	var visit func(i int) bool
	visit = func(i int) bool {
		if state[i] == 1 {
			return false
		}
		if state[i] == 2 {
			return true
		}
		state[i] = 1
		for _, d := range deps(i) {
			if !visit(d) {
				return false
			}
		}
		state[i] = 2
		return true
	}
	for i := range f.Tasks {
		if !visit(i) {
			return false, "dependency cycle"
		}
	}
	return true, ""
}

// Providers maps each type to its provider (-1 Params, i task).
func (f *Flow) Providers() map[int]int {
	pr := map[int]int{}
	for _, t := range f.Params {
		pr[t] = -1
	}
	for i, t := range f.Tasks {
		for _, o := range t.Out {
			pr[o] = i
		}
	}
	return pr
}

// Topo returns the tasks in a dependency order (providers first).
func (f *Flow) Topo() []int {
	pr := f.Providers()
	done := make([]bool, len(f.Tasks))
	var order []int
	var visit func(i int)
	visit = func(i int) {
		if done[i] {
			return
		}
		done[i] = true
		t := f.Tasks[i]
		ins := append([]int{}, t.In...)
		if t.Pred != nil {
			ins = append(ins, t.Pred.In...)
		}
		for _, in := range ins {
			if p, ok := pr[in]; ok && p >= 0 {
				visit(p)
			}
		}
		order = append(order, i)
	}
	for i := range f.Tasks {
		visit(i)
	}
	return order
}

// ---------------------------------------------------------------- reference semantics of flows

// Task states of the reference evaluation.
const (
	StOK       = "ok"       // must run (if the flow gets that far) and succeeds, or its failure is absorbed by a fallback
	StFailed   = "failed"   // must run (if the flow gets that far) and fails the flow
	StDisabled = "disabled" // predicate false: never invoked, outputs are zero values
	StBlocked  = "blocked"  // downstream of a failure: must never be invoked
	StPredFail = "predfail" // predicate panicked without fallback: task body never runs, flow fails
)

// FlowRef is the reference evaluation of a flow under a decision function.
type FlowRef struct {
	Val       map[int]uint64 // value of each type (only for types whose provider succeeded)
	Have      map[int]bool
	State     []string   // per task
	Args      [][]uint64 // expected arguments of each task that may run
	PredRuns  []bool     // predicate must/may run
	PredArgs  [][]uint64
	BodyRuns  []bool // the task function itself is invoked (if the flow gets that far)
	UsedFB    []bool
	AnyFail   bool
	FailTasks []int
}

// Eval evaluates the flow. decide returns the outcome kind for a function id.
func (f *Flow) Eval(pid string, params []uint64, decide func(id string) string) *FlowRef {
	r := &FlowRef{Val: map[int]uint64{}, Have: map[int]bool{}, State: make([]string, len(f.Tasks)), Args: make([][]uint64, len(f.Tasks)),
		PredRuns: make([]bool, len(f.Tasks)), PredArgs: make([][]uint64, len(f.Tasks)), BodyRuns: make([]bool, len(f.Tasks)), UsedFB: make([]bool, len(f.Tasks))}
	for k, t := range f.Params {
		if k < len(params) {
			r.Val[t] = params[k]
		}
		r.Have[t] = true
	}
	for _, i := range f.Topo() {
		t := f.Tasks[i]
		id := TaskID(pid, i)
		avail := func(ins []int) ([]uint64, bool) {
			var a []uint64
			for _, in := range ins {
				if !r.Have[in] {
					return nil, false
				}
				a = append(a, r.Val[in])
			}
			return a, true
		}
		fallback := func() {
			r.UsedFB[i] = true
			r.State[i] = StOK
			for j, o := range t.Out {
				r.Val[o] = probe.Fallback(id, j)
				r.Have[o] = true
			}
		}
		targs, tok := avail(t.In)
		if t.Pred != nil {
			pargs, pok := avail(t.Pred.In)
			if !pok {
				r.State[i] = StBlocked
				continue
			}
			r.PredRuns[i] = true
			r.PredArgs[i] = pargs
			switch decide(PredID(pid, i)) {
			case probe.False:
				// never invoked; zero values - but only if its own inputs' providers
				// succeeded (the task job itself depends on them)
				if !tok {
					r.State[i] = StBlocked
					continue
				}
				r.State[i] = StDisabled
				for _, o := range t.Out {
					r.Val[o] = 0
					r.Have[o] = true
				}
				continue
			case probe.Panic:
				if !tok {
					r.State[i] = StBlocked
					continue
				}
				if t.Fallback {
					fallback()
				} else {
					r.State[i] = StPredFail
					r.AnyFail = true
					r.FailTasks = append(r.FailTasks, i)
				}
				continue
			}
		}
		if !tok {
			r.State[i] = StBlocked
			continue
		}
		r.Args[i] = targs
		r.BodyRuns[i] = true
		switch decide(id) {
		case probe.Goexit:
			// the task's goroutine is gone: nothing can absorb that
			r.State[i] = StFailed
			r.AnyFail = true
			r.FailTasks = append(r.FailTasks, i)
		case probe.Fail, probe.Panic, probe.GateFail:
			if t.Fallback {
				fallback()
			} else {
				r.State[i] = StFailed
				r.AnyFail = true
				r.FailTasks = append(r.FailTasks, i)
			}
		default:
			r.State[i] = StOK
			for j, o := range t.Out {
				r.Val[o] = probe.Hash(id, j, targs)
				r.Have[o] = true
			}
		}
	}
	return r
}
