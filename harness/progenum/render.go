package progenum

import (
	"fmt"
	"strings"
)

// NTypes is the size of the type pool declared in every generated package.
const NTypes = 8

// GoType returns the Go spelling of abstract type i with spelling sp.
func GoType(sp string, i int) string {
	switch sp {
	case SpPtr:
		return fmt.Sprintf("*S%d", i)
	case SpBasic:
		return fmt.Sprintf("B%d", i)
	case SpSlice:
		return fmt.Sprintf("[]S%d", i)
	case SpMap:
		return fmt.Sprintf("map[B%d]uint64", i)
	case SpGeneric:
		return fmt.Sprintf("G[B%d]", i)
	case SpExt:
		return fmt.Sprintf("ext.V%d", i)
	case SpTime:
		return "time.Time"
	case SpIface:
		return fmt.Sprintf("I%d", i)
	case SpCtxLike:
		return "ictx.Context"
	case SpAnon:
		return fmt.Sprintf("struct{ H, X%d uint64 }", i)
	case SpArray:
		return fmt.Sprintf("[%d]uint64", i+1)
	case SpFunc:
		return fmt.Sprintf("func(B%d) uint64", i)
	}
	return fmt.Sprintf("S%d", i)
}

// MkExpr builds a value of the type from hash expression h.
func MkExpr(sp string, i int, h string) string {
	switch sp {
	case SpPtr:
		return fmt.Sprintf("&S%d{H: %s}", i, h)
	case SpBasic:
		return fmt.Sprintf("B%d(%s)", i, h)
	case SpSlice:
		return fmt.Sprintf("[]S%d{{H: %s}}", i, h)
	case SpMap:
		return fmt.Sprintf("map[B%d]uint64{0: %s}", i, h)
	case SpGeneric:
		return fmt.Sprintf("G[B%d]{H: %s}", i, h)
	case SpExt:
		return fmt.Sprintf("ext.V%d{H: %s}", i, h)
	case SpTime:
		return fmt.Sprintf("mkT(%s)", h)
	case SpIface:
		return fmt.Sprintf("I%d(S%d{H: %s})", i, i, h)
	case SpCtxLike:
		return fmt.Sprintf("ictx.Mk(%s)", h)
	case SpAnon:
		return fmt.Sprintf("struct{ H, X%d uint64 }{H: %s}", i, h)
	case SpArray:
		return fmt.Sprintf("[%d]uint64{%s}", i+1, h)
	case SpFunc:
		return fmt.Sprintf("mkF%d(%s)", i, h)
	}
	return fmt.Sprintf("S%d{H: %s}", i, h)
}

// HashExpr extracts the hash from value expression v.
func HashExpr(sp string, i int, v string) string {
	switch sp {
	case SpPtr:
		return fmt.Sprintf("hP%d(%s)", i, v)
	case SpBasic:
		return fmt.Sprintf("uint64(%s)", v)
	case SpSlice:
		return fmt.Sprintf("hL%d(%s)", i, v)
	case SpMap:
		return fmt.Sprintf("hM%d(%s)", i, v)
	case SpGeneric, SpExt:
		return fmt.Sprintf("%s.H", v)
	case SpTime:
		return fmt.Sprintf("hT(%s)", v)
	case SpIface:
		return fmt.Sprintf("hI(%s)", v)
	case SpCtxLike:
		return fmt.Sprintf("ictx.Hash(%s)", v)
	case SpAnon:
		return fmt.Sprintf("%s.H", v)
	case SpArray:
		return fmt.Sprintf("%s[0]", v)
	case SpFunc:
		return fmt.Sprintf("hF%d(%s)", i, v)
	}
	return fmt.Sprintf("%s.H", v)
}

// TypesFile is the shared, untagged declarations file of a generated package.
func TypesFile(pkg string) string {
	var b strings.Builder
	fmt.Fprintf(&b, "package %s\n\nimport \"time\"\n\n", pkg)
	b.WriteString("// mkT/hT carry a hash in a time.Time value.\nfunc mkT(h uint64) time.Time { return time.Unix(0, int64(h)) }\n\nfunc hT(t time.Time) uint64 {\n\tif t.IsZero() {\n\t\treturn 0\n\t}\n\treturn uint64(t.UnixNano())\n}\n\n")
	b.WriteString("// hI reads the hash of a value of any of the interface types I<i>.\nfunc hI(v interface{ Hv() uint64 }) uint64 {\n\tif v == nil {\n\t\treturn 0\n\t}\n\treturn v.Hv()\n}\n\n")
	b.WriteString("// G is a generic value type.\ntype G[X any] struct {\n\tH uint64\n\tx X\n}\n\n")
	for i := 0; i < NTypes; i++ {
		fmt.Fprintf(&b, "type S%d struct{ H uint64 }\ntype B%d uint64\n", i, i)
		fmt.Fprintf(&b, "type I%d interface{ Hv() uint64 }\nfunc (s S%d) Hv() uint64 { return s.H }\n", i, i)
		fmt.Fprintf(&b, "func mkF%d(h uint64) func(B%d) uint64 { return func(B%d) uint64 { return h } }\nfunc hF%d(f func(B%d) uint64) uint64 {\n\tif f == nil {\n\t\treturn 0\n\t}\n\treturn f(0)\n}\n", i, i, i, i, i)
		fmt.Fprintf(&b, "type BS%d []B%d\ntype BM%d map[B%d]B%d\n", i, i, i, i, (i+1)%NTypes)
		fmt.Fprintf(&b, "func hP%d(p *S%d) uint64 {\n\tif p == nil {\n\t\treturn 0\n\t}\n\treturn p.H\n}\n", i, i)
		fmt.Fprintf(&b, "func hL%d(s []S%d) uint64 {\n\tif len(s) == 0 {\n\t\treturn 0\n\t}\n\treturn s[0].H\n}\n", i, i)
		fmt.Fprintf(&b, "func hM%d(m map[B%d]uint64) uint64 { return m[0] }\n", i, i)
		fmt.Fprintf(&b, "func mkSl%d(c []uint64) []B%d {\n\tif c == nil {\n\t\treturn nil\n\t}\n\tr := make([]B%d, len(c))\n\tfor i, v := range c {\n\t\tr[i] = B%d(v)\n\t}\n\treturn r\n}\n", i, i, i, i)
		fmt.Fprintf(&b, "func mkMp%d(c map[uint64]uint64) map[B%d]B%d {\n\tif c == nil {\n\t\treturn nil\n\t}\n\tr := make(map[B%d]B%d, len(c))\n\tfor k, v := range c {\n\t\tr[B%d(k)] = B%d(v)\n\t}\n\treturn r\n}\n\n", i, i, (i+1)%NTypes, i, (i+1)%NTypes, i, (i+1)%NTypes)
	}
	b.WriteString("var _ = G[int]{}.x\n")
	return b.String()
}

// ExtFile is package ext of the generated module.
func ExtFile() string {
	var b strings.Builder
	b.WriteString("// Package ext holds value types and functions defined outside the packages that use directives.\npackage ext\n\n")
	for i := 0; i < NTypes; i++ {
		fmt.Fprintf(&b, "type V%d struct{ H uint64 }\n", i)
	}
	return b.String()
}

type renderer struct {
	p     *Program
	k     int // next probe.Tr index
	top   strings.Builder
	ctxN  string
	cffN  string
	needs map[string]bool
	// bare-identifier arguments (Features.IdentArg)
	elig     int             // eligible arguments seen so far
	eligN    int             // total number of eligible arguments (second pass)
	identDcl strings.Builder // declarations of identifier arguments
	mutArm   string          // identifier whose variable the next argument must zero (Features.MutAfter)
}

// ident marks expression e as an eligible argument; the chosen one is passed
// as a bare identifier declared before the directive.
func (r *renderer) ident(e string) string {
	k := r.elig
	r.elig++
	name := r.p.F.IdentArg
	if name == "" {
		return e
	}
	want := r.p.F.IdentPos
	if want < 0 {
		want = r.eligN - 1
	}
	if k != want {
		return e
	}
	fmt.Fprintf(&r.identDcl, "\t%s := %s\n", name, e)
	if r.p.F.MutAfter {
		r.mutArm = name
	}
	return name
}

// resName is the name of the variable receiving result j.
func resName(p *Program, j int) string {
	if j == 0 && p.F.ResultName != "" {
		return p.F.ResultName
	}
	return fmt.Sprintf("r%d", j)
}

func (r *renderer) tr(e string) string {
	if r.mutArm != "" && e != r.mutArm {
		// this argument's evaluation zeroes the variable used by the previous (identifier) argument
		e = "probe.Mut(func() { probe.Zero(&" + r.mutArm + ") }, " + e + ")"
		r.mutArm = ""
	}
	if !r.p.F.Wrap {
		return e
	}
	s := fmt.Sprintf("probe.Tr(%q, %d, %s)", r.p.ID, r.k, e)
	r.k++
	return s
}

func (r *renderer) ctxType() string {
	r.needs["context"] = true
	return r.ctxN + ".Context"
}

func (r *renderer) paren(s string) string {
	if r.p.F.Paren {
		return "(" + s + ")"
	}
	return s
}

// taskFunc renders a flow task function literal body pieces.
func (r *renderer) flowFunc(f *Flow, t *Task, id string) (sig, body string) {
	var params, args []string
	ctxArg := "nil"
	if t.Ctx {
		params = append(params, "ctx "+r.ctxType())
		ctxArg = "ctx"
	}
	for j, ti := range t.In {
		params = append(params, fmt.Sprintf("a%d %s", j, GoType(f.Types[ti], ti)))
		args = append(args, HashExpr(f.Types[ti], ti, fmt.Sprintf("a%d", j)))
	}
	var results, rets []string
	for j, to := range t.Out {
		results = append(results, GoType(f.Types[to], to))
		rets = append(rets, MkExpr(f.Types[to], to, fmt.Sprintf("r.Out(%d)", j)))
	}
	if t.Err {
		results = append(results, "error")
		rets = append(rets, "r.Err()")
	}
	sig = "(" + strings.Join(params, ", ") + ")"
	if len(results) == 1 {
		sig += " " + results[0]
	} else if len(results) > 1 {
		sig += " (" + strings.Join(results, ", ") + ")"
	}
	call := fmt.Sprintf("probe.Call(%q, %s", id, ctxArg)
	for _, a := range args {
		call += ", " + a
	}
	call += ")"
	if len(rets) == 0 {
		body = "{ " + call + " }"
	} else {
		body = "{ r := " + call + "; return " + strings.Join(rets, ", ") + " }"
	}
	return
}

func (r *renderer) predFunc(f *Flow, pr *Pred, id string) string {
	var params, args []string
	ctxArg := "nil"
	if pr.Ctx {
		params = append(params, "ctx "+r.ctxType())
		ctxArg = "ctx"
	}
	for j, ti := range pr.In {
		params = append(params, fmt.Sprintf("a%d %s", j, GoType(f.Types[ti], ti)))
		args = append(args, HashExpr(f.Types[ti], ti, fmt.Sprintf("a%d", j)))
	}
	call := fmt.Sprintf("probe.Pred(%q, %s", id, ctxArg)
	for _, a := range args {
		call += ", " + a
	}
	return "func(" + strings.Join(params, ", ") + ") bool { return " + call + ") }"
}

func (r *renderer) emitterOpts(em string) []string {
	e := func(i int) string { return fmt.Sprintf("in.Emit[%d].(%s.Emitter)", i, r.cffN) }
	switch em {
	case "1":
		return []string{r.cffN + ".WithEmitter(" + r.tr(r.ident(e(0))) + ")"}
	case "2", "prestack":
		return []string{r.cffN + ".WithEmitter(" + r.tr(e(0)) + ")", r.cffN + ".WithEmitter(" + r.tr(e(1)) + ")"}
	case "stack":
		return []string{r.cffN + ".WithEmitter(" + r.tr(fmt.Sprintf("%s.EmitterStack(%s.EmitterStack(%s, %s), %s)", r.cffN, r.cffN, e(0), e(1), e(2))) + ")"}
	case "nopstack":
		// a stack with a live emitter and the no-op emitter
		return []string{r.cffN + ".WithEmitter(" + r.tr(fmt.Sprintf("%s.EmitterStack(%s, %s.NopEmitter())", r.cffN, e(0), r.cffN)) + ")"}
	case "nop2":
		// the no-op emitter and a live emitter given separately
		return []string{r.cffN + ".WithEmitter(" + r.tr(r.cffN+".NopEmitter()") + ")", r.cffN + ".WithEmitter(" + r.tr(e(0)) + ")"}
	case "shared3":
		// two stacks derived from one shared base stack (a base of three has spare capacity)
		fmt.Fprintf(&r.identDcl, "\tembase := %s.EmitterStack(%s, %s, %s)\n\temA := %s.EmitterStack(embase, %s)\n\temB := %s.EmitterStack(embase, %s)\n", r.cffN, e(0), e(1), e(2), r.cffN, e(3), r.cffN, e(4))
		return []string{r.cffN + ".WithEmitter(" + r.tr("emA") + ")", r.cffN + ".WithEmitter(" + r.tr("emB") + ")"}
	}
	return nil
}

// EmitterCount is how many emitters the driver must supply.
func EmitterCount(em string) int {
	switch em {
	case "1", "nopstack", "nop2":
		return 1
	case "2", "prestack":
		return 2
	case "stack":
		return 3
	case "shared3":
		return 5
	}
	return 0
}

// EmitterGroups partitions the emitters of a configuration into groups that
// must each observe identical event sequences; Primary is an emitter that is
// registered exactly once (its sequence is what a lone emitter would see).
func EmitterGroups(em string) (groups [][]int, primary int) {
	if em == "shared3" {
		return [][]int{{0, 1, 2}, {3, 4}}, 3
	}
	if em == "prestack" {
		// emitters 0..2 form a stack built once by the caller and shared by every
		// instance; emitter 3+i belongs to instance i (judged by its own oracle)
		return [][]int{{0, 1, 2}}, 3
	}
	var g []int
	for i := 0; i < EmitterCount(em); i++ {
		g = append(g, i)
	}
	return [][]int{g}, 0
}

func (r *renderer) flowCall(decl *strings.Builder) string {
	p, f := r.p, r.p.Flow
	c := r.cffN
	order := f.Order
	if len(order) == 0 {
		order = DefaultOrder(f)
	}
	// result variables
	for j, ti := range f.Results {
		fmt.Fprintf(decl, "\tvar %s %s = %s\n", resName(p, j), GoType(f.Types[ti], ti), MkExpr(f.Types[ti], ti, fmt.Sprintf("probe.Sentinel(%d)", j)))
	}
	ctx := r.tr("in.Ctx")
	var opts, lateOpts []string
	for _, tok := range order {
		switch {
		case tok == "P":
			var vs []string
			for j, ti := range f.Params {
				h := fmt.Sprintf("in.Param(%d)", j)
				if j == 0 {
					for _, sh := range p.F.Shadow {
						h += "+" + sh
					}
				}
				vs = append(vs, r.tr(r.ident(MkExpr(f.Types[ti], ti, h))))
			}
			if p.F.SplitOpts == "params" || p.F.SplitOpts == "both" {
				for _, v := range vs {
					opts = append(opts, c+".Params("+v+")")
				}
			} else {
				opts = append(opts, c+".Params("+strings.Join(vs, ", ")+")")
			}
		case tok == "R":
			var vs []string
			for j := range f.Results {
				if p.F.Enclose == "generic" || p.F.Enclose == "method" {
					vs = append(vs, r.tr(fmt.Sprintf("pr%d", j)))
				} else {
					vs = append(vs, r.tr("&"+resName(p, j)))
				}
			}
			switch p.F.SplitOpts {
			case "results", "both":
				for _, v := range vs {
					opts = append(opts, c+".Results("+v+")")
				}
			case "results-spread":
				opts = append(opts, c+".Results("+vs[0]+")")
				for _, v := range vs[1:] {
					lateOpts = append(lateOpts, c+".Results("+v+")")
				}
			default:
				opts = append(opts, c+".Results("+strings.Join(vs, ", ")+")")
			}
		case tok == "C":
			switch f.Conc {
			case "expr":
				opts = append(opts, c+".Concurrency("+r.tr(r.ident("in.N"))+")")
			default:
				opts = append(opts, c+".Concurrency("+r.tr(f.Conc)+")")
			}
		case tok == "I":
			opts = append(opts, c+".InstrumentFlow("+r.tr(fmt.Sprintf("%q", p.ID))+")")
		case tok == "E":
			opts = append(opts, r.emitterOpts(f.Emitters)...)
		case strings.HasPrefix(tok, "T"):
			var i int
			fmt.Sscanf(tok, "T%d", &i)
			t := &f.Tasks[i]
			id := TaskID(p.ID, i)
			sig, body := r.flowFunc(f, t, id)
			var fn string
			switch t.Form {
			case "func":
				name := fmt.Sprintf("fn_%s_t%d", p.ID, i)
				fmt.Fprintf(&r.top, "func %s%s %s\n\n", name, sig, body)
				fn = name
			case "method":
				ty := fmt.Sprintf("m_%s_t%d", p.ID, i)
				fmt.Fprintf(&r.top, "type %s struct{}\n\nfunc (*%s) Run%s %s\n\n", ty, ty, sig, body)
				fn = fmt.Sprintf("(&%s{}).Run", ty)
			case "var":
				name := fmt.Sprintf("fv%d", i)
				fmt.Fprintf(decl, "\t%s := func%s %s\n", name, sig, body)
				fn = name
			default:
				fn = "func" + sig + " " + body
			}
			args := []string{r.tr(fn)}
			if t.Pred != nil {
				args = append(args, c+".Predicate("+r.tr(r.predFunc(f, t.Pred, PredID(p.ID, i)))+")")
			}
			if t.Fallback {
				var vs []string
				for j, to := range t.Out {
					vs = append(vs, r.tr(r.ident(MkExpr(f.Types[to], to, fmt.Sprintf("probe.Fallback(%q, %d)", id, j)))))
				}
				args = append(args, c+".FallbackWith("+strings.Join(vs, ", ")+")")
			}
			if t.Instrument {
				args = append(args, c+".Instrument("+r.tr(fmt.Sprintf("%q", id))+")")
			}
			if t.Invoke != "" {
				args = append(args, c+".Invoke("+t.Invoke+")")
			}
			opts = append(opts, c+".Task(\n\t\t\t"+strings.Join(args, ",\n\t\t\t")+",\n\t\t)")
		}
	}
	opts = append(opts, lateOpts...)
	for i := range opts {
		opts[i] = r.paren(opts[i])
	}
	return c + ".Flow(" + ctx + ",\n\t\t" + strings.Join(opts, ",\n\t\t") + ",\n\t)"
}

// DefaultOrder is the canonical listing order of a flow's options.
func DefaultOrder(f *Flow) []string {
	var o []string
	if len(f.Params) > 0 {
		o = append(o, "P")
	}
	if len(f.Results) > 0 {
		o = append(o, "R")
	}
	if f.Conc != "" {
		o = append(o, "C")
	}
	if f.Emitters != "" {
		o = append(o, "E")
	}
	if f.Instrument {
		o = append(o, "I")
	}
	for i := range f.Tasks {
		o = append(o, fmt.Sprintf("T%d", i))
	}
	return o
}

func (r *renderer) simpleFn(id string, ctx, err bool, extraParams, extraArgs []string) string {
	var params []string
	ctxArg := "nil"
	if ctx {
		params = append(params, "ctx "+r.ctxType())
		ctxArg = "ctx"
	}
	params = append(params, extraParams...)
	call := fmt.Sprintf("probe.Call(%q, %s", id, ctxArg)
	for _, a := range extraArgs {
		call += ", " + a
	}
	call += ")"
	if err {
		return "func(" + strings.Join(params, ", ") + ") error { return " + call + ".Err() }"
	}
	return "func(" + strings.Join(params, ", ") + ") { " + call + " }"
}

func (r *renderer) parCall(decl *strings.Builder) string {
	p, par := r.p, r.p.Par
	c := r.cffN
	ctx := r.tr("in.Ctx")
	var opts []string
	if par.Conc != "" {
		if par.Conc == "expr" {
			n := "in.N"
			for _, sh := range p.F.Shadow {
				n += "+int(" + sh + ")"
			}
			opts = append(opts, c+".Concurrency("+r.tr(r.ident(n))+")")
		} else {
			opts = append(opts, c+".Concurrency("+r.tr(par.Conc)+")")
		}
	}
	switch par.COE {
	case "true", "false":
		opts = append(opts, c+".ContinueOnError("+r.tr(par.COE)+")")
	case "expr":
		opts = append(opts, c+".ContinueOnError("+r.tr(r.ident("in.COE"))+")")
	}
	opts = append(opts, r.emitterOpts(par.Emitters)...)
	if par.Instrument {
		opts = append(opts, c+".InstrumentParallel("+r.tr(fmt.Sprintf("%q", p.ID))+")")
	}
	for k, it := range par.Items {
		id := ItemID(p.ID, k)
		switch it.Kind {
		case "task":
			args := []string{r.tr(r.simpleFn(id, it.Ctx, it.Err, nil, nil))}
			if it.Instrument {
				args = append(args, c+".Instrument("+r.tr(fmt.Sprintf("%q", id))+")")
			}
			opts = append(opts, c+".Task("+strings.Join(args, ", ")+")")
		case "tasks":
			var fns []string
			for j := 0; j < it.Count; j++ {
				fns = append(fns, r.tr(r.simpleFn(SubID(p.ID, k, j), it.Ctx, it.Err, nil, nil)))
			}
			opts = append(opts, c+".Tasks(\n\t\t\t"+strings.Join(fns, ",\n\t\t\t")+",\n\t\t)")
		case "slice":
			ti := k % NTypes
			var ep, ea []string
			if it.Idx {
				ep = append(ep, "idx int")
				ea = append(ea, "uint64(idx)")
			}
			ep = append(ep, fmt.Sprintf("v B%d", ti))
			ea = append(ea, "uint64(v)")
			coll := fmt.Sprintf("mkSl%d(in.Coll(%d))", ti, it.Coll)
			if it.Named {
				coll = fmt.Sprintf("BS%d(%s)", ti, coll)
			}
			args := []string{r.tr(r.simpleFn(id, it.Ctx, it.Err, ep, ea)), r.tr(r.ident(coll))}
			if it.End != nil {
				args = append(args, c+".SliceEnd("+r.tr(r.simpleFn(EndID(p.ID, k), it.End.Ctx, it.End.Err, nil, nil))+")")
			}
			opts = append(opts, c+".Slice(\n\t\t\t"+strings.Join(args, ",\n\t\t\t")+",\n\t\t)")
		case "map":
			ti := k % NTypes
			ep := []string{fmt.Sprintf("k B%d", ti), fmt.Sprintf("v B%d", (ti+1)%NTypes)}
			ea := []string{"uint64(k)", "uint64(v)"}
			coll := fmt.Sprintf("mkMp%d(in.Map(%d))", ti, it.Coll)
			if it.Named {
				coll = fmt.Sprintf("BM%d(%s)", ti, coll)
			}
			args := []string{r.tr(r.simpleFn(id, it.Ctx, it.Err, ep, ea)), r.tr(r.ident(coll))}
			if it.End != nil {
				args = append(args, c+".MapEnd("+r.tr(r.simpleFn(EndID(p.ID, k), it.End.Ctx, it.End.Err, nil, nil))+")")
			}
			opts = append(opts, c+".Map(\n\t\t\t"+strings.Join(args, ",\n\t\t\t")+",\n\t\t)")
		}
	}
	for i := range opts {
		opts[i] = r.paren(opts[i])
	}
	return c + ".Parallel(" + ctx + ",\n\t\t" + strings.Join(opts, ",\n\t\t") + ",\n\t)"
}

// Render returns the cff-tagged Go source of program p in package pkg.
// modPath is the import path prefix of the generated module.
func Render(p *Program, pkg, modPath string) string {
	if p.Raw != "" {
		s := strings.ReplaceAll(p.Raw, "PKG", pkg)
		s = strings.ReplaceAll(s, "MOD", modPath)
		return strings.ReplaceAll(s, "ID", p.ID)
	}
	r := &renderer{p: p, ctxN: "context", cffN: "cff", needs: map[string]bool{}}
	if p.F.CtxAlias != "" {
		r.ctxN = p.F.CtxAlias
	}
	if p.F.CffAlias != "" {
		r.cffN = p.F.CffAlias
	}
	if p.F.IdentArg != "" && p.F.IdentPos < 0 {
		// first pass: count the eligible arguments
		q := &renderer{p: p, ctxN: r.ctxN, cffN: r.cffN, needs: map[string]bool{}}
		pp := *p
		pp.F.IdentArg = ""
		q.p = &pp
		var d strings.Builder
		if p.Flow != nil {
			q.flowCall(&d)
		} else {
			q.parCall(&d)
		}
		r.eligN = q.elig
	}
	var decl strings.Builder
	var call string
	if p.Flow != nil {
		call = r.flowCall(&decl)
	} else {
		call = r.parCall(&decl)
	}
	decl.WriteString(r.identDcl.String())
	var b strings.Builder
	b.WriteString("//go:build cff\n// +build cff\n\npackage " + pkg + "\n\nimport (\n")
	if r.needs["context"] {
		if p.F.CtxAlias != "" {
			fmt.Fprintf(&b, "\t%s \"context\"\n", p.F.CtxAlias)
		} else {
			b.WriteString("\t\"context\"\n")
		}
	}
	usesTime := false
	if p.Flow != nil {
		for _, sp := range p.Flow.Types {
			if sp == SpTime {
				usesTime = true
			}
		}
	}
	if usesTime && p.F.TimeImp == "" {
		b.WriteString("\t\"time\"\n")
	}
	switch p.F.TimeImp {
	case "plain":
		b.WriteString("\t\"time\"\n")
	case "alias":
		b.WriteString("\ttm \"time\"\n")
	case "other":
		fmt.Fprintf(&b, "\ttime \"%s/othertime\"\n", modPath)
	case "dirname":
		// an unnamed import of a package called time that lives in a directory of another name
		fmt.Fprintf(&b, "\t\"%s/ext/go-time\"\n", modPath)
	}
	if p.F.DebugImp == "other" {
		fmt.Fprintf(&b, "\t\"%s/ext/debug\"\n", modPath)
	}
	if p.F.DebugImp == "dirname" {
		fmt.Fprintf(&b, "\t\"%s/ext/go-debug\"\n", modPath)
	}
	if p.F.CffAlias != "" {
		fmt.Fprintf(&b, "\t%s \"go.uber.org/cff\"\n", p.F.CffAlias)
	} else {
		b.WriteString("\t\"go.uber.org/cff\"\n")
	}
	b.WriteString("\t\"verif/harness/probe\"\n")
	usesExt := false
	if p.Flow != nil {
		for _, s := range p.Flow.Types {
			if s == SpExt {
				usesExt = true
			}
			if s == SpCtxLike && !strings.Contains(b.String(), "/ext/inner/context\"") {
				fmt.Fprintf(&b, "\tictx \"%s/ext/inner/context\"\n", modPath)
			}
		}
	}
	if usesExt {
		fmt.Fprintf(&b, "\t\"%s/ext\"\n", modPath)
	}
	b.WriteString(")\n\n")
	switch p.F.TimeImp {
	case "plain":
		b.WriteString("var _ = time.Second\n\n")
	case "alias":
		b.WriteString("var _ = tm.Second\n\n")
	case "other", "dirname":
		b.WriteString("var _ = time.Marker\n\n")
	}
	if p.F.DebugImp == "other" || p.F.DebugImp == "dirname" {
		b.WriteString("var _ = debug.Marker\n\n")
	}
	fmt.Fprintf(&b, "func init() { probe.Register(%q, `%s`, run_%s) }\n\n", p.ID, p.JSON(), p.ID)
	b.WriteString(r.top.String())
	if p.F.Surround {
		fmt.Fprintf(&b, "// keep_%s is unrelated code that must survive generation unchanged.\ntype keep_%s struct {\n\tA int `json:\"a\"`\n\tB []string\n}\n\nconst kc_%s = 40 + 2\n\nfunc (k *keep_%s) sum(xs ...int) (s int) {\n\tfor _, x := range xs {\n\t\tif x%%2 == 0 {\n\t\t\ts += x\n\t\t} else {\n\t\t\ts -= x\n\t\t}\n\t}\n\treturn s + k.A + kc_%s\n}\n\n", p.ID, p.ID, p.ID, p.ID, p.ID)
	}
	shadow := func(b *strings.Builder) {
		for _, s := range p.F.Shadow {
			fmt.Fprintf(b, "\t%s := uint64(0)\n\t_ = %s\n", s, s)
		}
	}
	for i := 0; i < p.F.Pad; i++ {
		fmt.Fprintf(&b, "// filler line %d\n", i)
	}
	if p.F.Pad > 0 {
		b.WriteString("\n")
	}
	fmt.Fprintf(&b, "func run_%s(in *probe.In) *probe.Out {\n\tout := &probe.Out{}\n", p.ID)
	if p.F.Surround {
		fmt.Fprintf(&b, "\tbefore := (&keep_%s{A: 1}).sum(1, 2, 3)\n\tdefer func() { _ = before }()\n", p.ID)
	}
	b.WriteString(decl.String())
	switch p.F.Enclose {
	case "closure":
		b.WriteString("\tout.Err = func() error {\n")
		shadow(&b)
		b.WriteString("\t\treturn " + call + "\n\t}()\n")
	case "nested2":
		b.WriteString("\tout.Err = func() error {\n\t\treturn func() (e error) {\n")
		shadow(&b)
		b.WriteString("\t\t\te = " + call + "\n\t\t\treturn\n\t\t}()\n\t}()\n")
	case "defer":
		shadow(&b)
		b.WriteString("\tfunc() {\n\t\tdefer func(e error) { out.Err = e }(" + call + ")\n\t}()\n")
	case "generic":
		// handled below: the directive sits in a generic helper
		shadow(&b)
		if ga := genericArgs(p); ga != "" {
			fmt.Fprintf(&b, "\tout.Err = gen_%s[int, string](in, 7, %s)\n", p.ID, ga)
		} else {
			fmt.Fprintf(&b, "\tout.Err = gen_%s[int, string](in, 7)\n", p.ID)
		}
	case "method":
		shadow(&b)
		fmt.Fprintf(&b, "\tout.Err = (&recv_%s{in: in}).do(%s)\n", p.ID, genericArgs(p))
	default:
		shadow(&b)
		b.WriteString("\tout.Err = " + call + "\n")
		if p.F.AssignAfter && p.F.IdentArg != "" {
			b.WriteString("\tprobe.Zero(&" + p.F.IdentArg + ")\n")
		}
	}
	if p.Flow != nil {
		var hs []string
		for j, ti := range p.Flow.Results {
			hs = append(hs, HashExpr(p.Flow.Types[ti], ti, resName(p, j)))
		}
		b.WriteString("\tout.R = []uint64{" + strings.Join(hs, ", ") + "}\n")
	}
	if p.F.Surround {
		fmt.Fprintf(&b, "\tif before != (&keep_%s{A: 1}).sum(1, 2, 3) {\n\t\tpanic(\"unrelated code changed behaviour\")\n\t}\n", p.ID)
	}
	b.WriteString("\treturn out\n}\n")
	switch p.F.Enclose {
	case "generic":
		fmt.Fprintf(&b, "\nfunc gen_%s[X any, Y comparable](in *probe.In, x X%s) error {\n\t_ = x\n\treturn %s\n}\n", p.ID, genericParams(p), call)
	case "method":
		fmt.Fprintf(&b, "\ntype recv_%s struct{ in *probe.In }\n\nfunc (rc *recv_%s) do(%s) error {\n\tin := rc.in\n\treturn %s\n}\n", p.ID, p.ID, strings.TrimPrefix(genericParams(p), ", "), call)
	}
	if usesTime && p.F.TimeImp == "alias" {
		// the file imports time under another name: its own mentions of the type follow
		return strings.ReplaceAll(b.String(), "time.Time", "tm.Time")
	}
	return b.String()
}

// genericParams/genericArgs pass pointers to the result variables into a
// helper function that contains the directive.
func genericParams(p *Program) string {
	if p.Flow == nil {
		return ""
	}
	s := ""
	for j, ti := range p.Flow.Results {
		s += fmt.Sprintf(", pr%d *%s", j, GoType(p.Flow.Types[ti], ti))
	}
	return s
}

func genericArgs(p *Program) string {
	if p.Flow == nil {
		return ""
	}
	var a []string
	for j := range p.Flow.Results {
		a = append(a, "&"+resName(p, j))
	}
	return strings.Join(a, ", ")
}
