// Package progenum defines abstract cff programs (flows and parallels), renders
// them as Go source for the cff tool under test, and gives their reference
// semantics (well-formedness and expected behaviour), written from cff's
// documentation rather than from its templates.
package progenum

import (
	"encoding/json"
	"fmt"
	"sort"
	"strings"
)

// Type spellings.
const (
	SpStruct  = "struct"  // S<i>
	SpPtr     = "ptr"     // *S<i>
	SpBasic   = "basic"   // B<i>
	SpSlice   = "slice"   // []S<i>
	SpMap     = "map"     // map[B<i>]uint64
	SpGeneric = "generic" // G[B<i>]
	SpExt     = "ext"     // ext.V<i>
	SpAnon    = "anon"    // struct{ H, X<i> uint64 }: an unnamed struct type
	SpArray   = "array"   // [i+1]uint64: an unnamed array type
	SpFunc    = "func"    // func(B<i>) uint64: an unnamed function type
	SpCtxLike = "ctxlike" // ictx.Context: an interface of a user package named context that context.Context satisfies (one per program)
	SpIface   = "iface"   // I<i>: named interfaces with one common method set - distinct types whose values are assignable to one another
	SpTime    = "time"    // time.Time (a type the generated code has locals of: startTime)
)

// Pred is a cff.Predicate.
type Pred struct {
	In  []int `json:"in,omitempty"`
	Ctx bool  `json:"ctx,omitempty"`
}

// Task is a cff.Task of a flow.
type Task struct {
	In         []int  `json:"in,omitempty"`
	Out        []int  `json:"out,omitempty"`
	Ctx        bool   `json:"ctx,omitempty"`
	Err        bool   `json:"err,omitempty"`
	Invoke     string `json:"invoke,omitempty"` // "", "true", "false"
	Pred       *Pred  `json:"pred,omitempty"`
	Fallback   bool   `json:"fallback,omitempty"`
	Instrument bool   `json:"instrument,omitempty"`
	Form       string `json:"form,omitempty"` // "", "func", "method", "var"
}

// Flow is an abstract cff.Flow.
type Flow struct {
	Types      []string `json:"types"` // spelling of each abstract type
	Params     []int    `json:"params,omitempty"`
	Results    []int    `json:"results,omitempty"`
	Tasks      []Task   `json:"tasks"`
	Conc       string   `json:"conc,omitempty"`  // "", "1", "2", "expr" (in.N)
	Order      []string `json:"order,omitempty"` // listing order of options: "P","R","C","I","E","T0",...
	Instrument bool     `json:"instrument,omitempty"`
	Emitters   string   `json:"emitters,omitempty"` // "", "1", "2", "stack" (EmitterStack(EmitterStack(a,b),c))
}

// End is a SliceEnd/MapEnd hook.
type End struct {
	Ctx bool `json:"ctx,omitempty"`
	Err bool `json:"err,omitempty"`
}

// Item is one option of a cff.Parallel.
type Item struct {
	Kind       string `json:"kind"` // "task", "tasks", "slice", "map"
	Ctx        bool   `json:"ctx,omitempty"`
	Err        bool   `json:"err,omitempty"`
	Idx        bool   `json:"idx,omitempty"`   // slice function takes the index
	Named      bool   `json:"named,omitempty"` // named slice/map type
	End        *End   `json:"end,omitempty"`
	Count      int    `json:"count,omitempty"` // tasks: number of functions
	Instrument bool   `json:"instrument,omitempty"`
	Coll       int    `json:"coll"` // index into In.Colls / In.Maps
}

// Parallel is an abstract cff.Parallel.
type Parallel struct {
	Items      []Item `json:"items"`
	Conc       string `json:"conc,omitempty"`
	COE        string `json:"coe,omitempty"` // "", "true", "false", "expr" (in.COE)
	Instrument bool   `json:"instrument,omitempty"`
	Emitters   string `json:"emitters,omitempty"`
}

// Features are spelling and context variations of the rendered source.
type Features struct {
	Wrap     bool     `json:"wrap,omitempty"`      // wrap every argument in probe.Tr
	Enclose  string   `json:"enclose,omitempty"`   // "", "closure", "generic", "method", "nested2", "defer", "go"
	Shadow   []string `json:"shadow,omitempty"`    // identifiers declared in the enclosing function before the directive
	CtxAlias string   `json:"ctx_alias,omitempty"` // import context under this name
	TimeImp  string   `json:"time_imp,omitempty"`  // "plain": file imports time; "alias": imports tm "time"; "other": imports another package named time
	CffAlias string   `json:"cff_alias,omitempty"` // import go.uber.org/cff under this name
	Paren    bool     `json:"paren,omitempty"`     // parenthesise options
	Extra    string   `json:"extra,omitempty"`     // free-form marker for special templates
	Surround bool     `json:"surround,omitempty"`  // add unrelated declarations and statements around the directive
	// DebugImp "other": the file imports a user package named debug (the
	// generated code needs runtime/debug)
	DebugImp string `json:"debug_imp,omitempty"`
	// SplitOpts: "results" / "params" / "both": one cff.Results (cff.Params) option per target (value); "results-spread": the first
	// target where the option stands, the others behind the tasks
	SplitOpts string `json:"split_opts,omitempty"`
	// IdentArg: the IdentPos-th eligible directive argument (Params value,
	// Concurrency/ContinueOnError value, collection, emitter; -1 = the last
	// one) is passed as a bare identifier of this name, declared in the
	// enclosing function.
	IdentArg string `json:"ident_arg,omitempty"`
	IdentPos int    `json:"ident_pos,omitempty"`
	// MutAfter: the argument following the identifier argument has a side
	// effect on that identifier's variable (it zeroes it); the directive must
	// have read the identifier before.
	MutAfter bool `json:"mut_after,omitempty"`
	// AssignAfter: the caller changes the identifier argument's variable right after the directive returned
	AssignAfter bool `json:"assign_after,omitempty"`
	// ResultName: the variable receiving the first cff.Results value has this name.
	ResultName string `json:"result_name,omitempty"`
	// Pad: number of comment lines inserted before the enclosing function
	// (moves the directive to chosen line numbers).
	Pad int `json:"pad,omitempty"`
}

// Program is one directive with its rendering features.
type Program struct {
	ID   string    `json:"id"`
	Flow *Flow     `json:"flow,omitempty"`
	Par  *Parallel `json:"par,omitempty"`
	F    Features  `json:"f,omitempty"`
	Fam  string    `json:"fam,omitempty"`
	// Raw, if set, is the complete source text (with PKG, ID and MOD
	// placeholders); Expect says whether cff must accept it.
	Raw    string `json:"raw,omitempty"`
	Expect string `json:"expect,omitempty"` // "accept" | "reject"
	// Alone: the program is the only file with directives in its package (the generator numbers tasks per package)
	Alone bool `json:"alone,omitempty"`
}

// JSON renders the program (stable).
func (p *Program) JSON() string {
	b, _ := json.Marshal(p)
	return string(b)
}

// Parse reads a program spec.
func Parse(s string) (*Program, error) {
	var p Program
	err := json.Unmarshal([]byte(s), &p)
	return &p, err
}

// Key is a short stable description used in findings and evidence.
func (p *Program) Key() string {
	var b strings.Builder
	if p.Flow != nil {
		f := p.Flow
		fmt.Fprintf(&b, "flow{P%v R%v", f.Params, f.Results)
		for _, t := range f.Tasks {
			fmt.Fprintf(&b, " T(%v->%v", t.In, t.Out)
			if t.Ctx {
				b.WriteString(" ctx")
			}
			if t.Err {
				b.WriteString(" err")
			}
			if t.Invoke != "" {
				b.WriteString(" invoke=" + t.Invoke)
			}
			if t.Pred != nil {
				fmt.Fprintf(&b, " pred%v", t.Pred.In)
				if t.Pred.Ctx {
					b.WriteString("c")
				}
			}
			if t.Fallback {
				b.WriteString(" fb")
			}
			if t.Instrument {
				b.WriteString(" ins")
			}
			if t.Form != "" {
				b.WriteString(" " + t.Form)
			}
			b.WriteString(")")
		}
		if f.Conc != "" {
			b.WriteString(" conc=" + f.Conc)
		}
		if len(f.Order) > 0 {
			b.WriteString(" order=" + strings.Join(f.Order, ""))
		}
		if f.Instrument {
			b.WriteString(" insflow")
		}
		if f.Emitters != "" {
			b.WriteString(" em=" + f.Emitters)
		}
		sp := map[string]bool{}
		for _, s := range f.Types {
			sp[s] = true
		}
		if len(sp) > 1 || !sp[SpStruct] {
			b.WriteString(" types=" + strings.Join(f.Types, ","))
		}
		b.WriteString("}")
	}
	if p.Par != nil {
		b.WriteString("par{")
		for i, it := range p.Par.Items {
			if i > 0 {
				b.WriteString(" ")
			}
			b.WriteString(it.Kind)
			if it.Ctx {
				b.WriteString("+ctx")
			}
			if it.Idx {
				b.WriteString("+idx")
			}
			if it.Err {
				b.WriteString("+err")
			}
			if it.Named {
				b.WriteString("+named")
			}
			if it.End != nil {
				b.WriteString("+end")
				if it.End.Ctx {
					b.WriteString("c")
				}
				if it.End.Err {
					b.WriteString("e")
				}
			}
			if it.Count > 0 {
				fmt.Fprintf(&b, "x%d", it.Count)
			}
			if it.Instrument {
				b.WriteString("+ins")
			}
		}
		if p.Par.Conc != "" {
			b.WriteString(" conc=" + p.Par.Conc)
		}
		if p.Par.COE != "" {
			b.WriteString(" coe=" + p.Par.COE)
		}
		if p.Par.Instrument {
			b.WriteString(" inspar")
		}
		if p.Par.Emitters != "" {
			b.WriteString(" em=" + p.Par.Emitters)
		}
		b.WriteString("}")
	}
	if p.Raw != "" {
		b.WriteString("raw{" + p.Fam + "}")
	}
	fs, _ := json.Marshal(p.F)
	if string(fs) != "{}" {
		b.WriteString(" feat=" + string(fs))
	}
	if p.Alone {
		b.WriteString(" alone")
	}
	return b.String()
}

// TaskID etc. name the user functions of a program for the probe.
func TaskID(pid string, i int) string { return fmt.Sprintf("%s.t%d", pid, i) }
func PredID(pid string, i int) string { return fmt.Sprintf("%s.p%d", pid, i) }
func ItemID(pid string, k int) string { return fmt.Sprintf("%s.i%d", pid, k) }
func SubID(pid string, k, j int) string {
	return fmt.Sprintf("%s.i%d.%d", pid, k, j)
}
func EndID(pid string, k int) string { return fmt.Sprintf("%s.e%d", pid, k) }

func sortedInts(m map[int]bool) []int {
	var r []int
	for k := range m {
		r = append(r, k)
	}
	sort.Ints(r)
	return r
}
