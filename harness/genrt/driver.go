package genrt

import (
	"encoding/json"
	"flag"
	"fmt"
	"hash/fnv"
	"os"
	"sort"
	"strings"
	"time"

	"go.uber.org/cff/zzverif/vs"
	"verif/harness/mc"
	"verif/harness/probe"
)

// Task is one exploration job for a driver worker.
type Task struct {
	Sc        Scenario `json:"sc"`
	DeadlineS int      `json:"deadline_s"`
	MaxExecs  int64    `json:"max_execs,omitempty"`
	Replay    []int    `json:"replay,omitempty"` // if set: replay this decision list instead of exploring
}

// Violation found by a worker (already confirmed by five identical replays).
type Violation struct {
	Prop      string   `json:"prop"`
	Msg       string   `json:"msg"`
	Decisions []int    `json:"decisions"`
	Trace     []string `json:"trace,omitempty"`
	Visible   string   `json:"visible"`
	Race      bool     `json:"race,omitempty"`
	// Space: a finding about the whole exploration of the scenario (something that some schedule must show
	// and none did), not about one execution; replayed by exploring the scenario again
	Space bool `json:"space,omitempty"`
}

// Result of one task.
type Result struct {
	Scenario   string      `json:"scenario"`
	Stats      vs.Stats    `json:"stats"`
	Visibles   int         `json:"visibles"`
	Outcomes   []string    `json:"outcomes"`
	Violations []Violation `json:"violations,omitempty"`
	ToolErr    string      `json:"tool_err,omitempty"`
	WallMs     int64       `json:"wall_ms"`
	Sample     *Violation  `json:"sample,omitempty"`
	MaxSpawned int         `json:"max_spawned"`
	Calls      int         `json:"calls"` // max number of user-function invocations seen in one execution
}

// raceLogSize returns the size of this process's race-detector log
// (GORACE=log_path=<prefix> makes the runtime write <prefix>.<pid>).
func raceLogSize() int64 {
	pfx := os.Getenv("VERIF_RACE_LOG")
	if pfx == "" {
		return 0
	}
	st, err := os.Stat(fmt.Sprintf("%s.%d", pfx, os.Getpid()))
	if err != nil {
		return 0
	}
	return st.Size()
}

func raceLogTail(from int64) string {
	pfx := os.Getenv("VERIF_RACE_LOG")
	b, err := os.ReadFile(fmt.Sprintf("%s.%d", pfx, os.Getpid()))
	if err != nil || int64(len(b)) <= from {
		return ""
	}
	return string(b[from:])
}

func runTask(t *Task) *Result {
	start := time.Now()
	sc := &t.Sc
	res := &Result{Scenario: sc.String()}
	if err := sc.Resolve(); err != nil {
		res.ToolErr = err.Error()
		return res
	}
	var cur *Run
	body := func() {
		b, r := sc.Body()
		cur = r
		b()
	}
	if t.Replay != nil {
		before := raceLogSize()
		ex := vs.Replay(sc.Config(), body, t.Replay)
		if ex.Term == vs.TermToolError {
			res.ToolErr = ex.ToolErr
			return res
		}
		vis := Visible(cur, ex)
		if vs.RaceBuild && raceLogSize() > before {
			res.Violations = append(res.Violations, Violation{Prop: "C12", Msg: "the Go race detector reports a data race in this execution:\n" + raceSummary(raceLogTail(before)), Decisions: t.Replay, Trace: ex.Trace, Visible: vis})
		}
		for _, f := range Check(cur, ex) {
			res.Violations = append(res.Violations, Violation{Prop: f.Prop, Msg: f.Msg, Decisions: t.Replay, Trace: ex.Trace, Visible: vis})
		}
		res.Outcomes = []string{Outcome(cur)}
		res.Sample = &Violation{Decisions: t.Replay, Trace: ex.Trace, Visible: vis}
		return res
	}
	visibles := map[uint64]bool{}
	outcomes := map[string]bool{}
	seen := map[string]bool{}
	opt := vs.Options{Strategy: vs.SleepSets, PreemptBound: -1, Cfg: sc.Config(), MaxExecs: t.MaxExecs}
	if sc.PreemptBound > 0 {
		opt.Strategy, opt.PreemptBound = vs.Plain, sc.PreemptBound-1
	}
	if sc.MaxExecs > 0 {
		opt.MaxExecs = sc.MaxExecs
	}
	if t.DeadlineS > 0 {
		opt.Deadline = start.Add(time.Duration(t.DeadlineS) * time.Second)
	}
	raceSeen := raceLogSize()
	if vs.RaceBuild {
		opt.AfterExec = func(ex *vs.Exec) bool {
			if n := raceLogSize(); n > raceSeen {
				res.Violations = append(res.Violations, Violation{Prop: "C12", Msg: "the Go race detector reports a data race in this execution:\n" + raceSummary(raceLogTail(raceSeen)),
					Decisions: append([]int{}, ex.Decisions...), Visible: Visible(cur, ex), Race: true})
				raceSeen = n
				return true
			}
			return false
		}
	}
	eager := EagerPairs(sc)
	eagerSeen := map[string]bool{}
	wantSched, sawSched := WantsSchedulerReport(sc), false
	st, terr := vs.Explore(opt, body, func(ex *vs.Exec) bool {
		for _, k := range EagerWitnessed(cur, eager) {
			eagerSeen[k] = true
		}
		if wantSched && !sawSched {
			for _, e := range cur.Emits {
				if e.Scope == "sched" && e.Em == 0 {
					sawSched = true
					break
				}
			}
		}
		vis := Visible(cur, ex)
		h := fnv.New64a()
		h.Write([]byte(vis))
		visibles[h.Sum64()] = true
		outcomes[Outcome(cur)] = true
		if ex.Spawned > res.MaxSpawned {
			res.MaxSpawned = ex.Spawned
		}
		if len(cur.Calls) > res.Calls {
			res.Calls = len(cur.Calls)
		}
		if res.Sample == nil {
			res.Sample = &Violation{Decisions: append([]int{}, ex.Decisions...), Visible: vis}
		}
		stop := false
		for _, f := range Check(cur, ex) {
			if seen[f.Prop] {
				continue
			}
			seen[f.Prop] = true
			res.Violations = append(res.Violations, Violation{Prop: f.Prop, Msg: f.Msg, Decisions: append([]int{}, ex.Decisions...), Visible: vis})
			stop = true
		}
		return stop
	})
	res.Stats = st
	res.ToolErr = terr
	if terr == "" && st.Exhaustive && sc.PreemptBound == 0 && len(res.Violations) == 0 {
		for _, k := range eager {
			if !eagerSeen[k] {
				var i, p int
				fmt.Sscanf(k, "%d/%d", &i, &p)
				res.Violations = append(res.Violations, Violation{Prop: "C11", Space: true, Visible: "(whole exploration)",
					Msg: fmt.Sprintf("in none of the %d schedules explored (all interleavings, %d workers) does the predicate of task %d start before task %d has returned, although task %d only provides an input of the task, not of the predicate: the predicate is not evaluated as soon as its own inputs are available", st.Complete, effLimit(sc), i, p, p)})
				break
			}
		}
	}
	if terr == "" && st.Exhaustive && sc.PreemptBound == 0 && len(res.Violations) == 0 && wantSched && !sawSched {
		res.Violations = append(res.Violations, Violation{Prop: "C18", Space: true, Visible: "(whole exploration)",
			Msg: fmt.Sprintf("in none of the %d schedules explored did the user's emitter receive a scheduler state report, although the ticker may fire %d time(s) while the directive runs: an emitter in this configuration does not receive what it would receive alone", st.Complete, sc.Ticks)})
	}
	res.Visibles = len(visibles)
	for o := range outcomes {
		res.Outcomes = append(res.Outcomes, o)
	}
	sort.Strings(res.Outcomes)
	// confirm violations: five replays with identical observations
	for vi := range res.Violations {
		v := &res.Violations[vi]
		if v.Race || v.Space {
			// the detector reports a pair of stacks once per process: race
			// findings are confirmed by the orchestrator in a fresh process;
			// a finding about the whole exploration has no schedule of its own
			continue
		}
		for i := 0; i < 5; i++ {
			ex := vs.Replay(sc.Config(), body, v.Decisions)
			if ex.Term == vs.TermToolError {
				res.ToolErr = "replay: " + ex.ToolErr
				return res
			}
			if vis := Visible(cur, ex); vis != v.Visible {
				res.ToolErr = fmt.Sprintf("NONDETERMINISM: replay %d of a %s violation gave a different visible trace", i, v.Prop)
				return res
			}
			found := false
			for _, f := range Check(cur, ex) {
				if f.Prop == v.Prop {
					found = true
				}
			}
			if !found {
				res.ToolErr = fmt.Sprintf("NONDETERMINISM: replay %d did not reproduce the %s violation", i, v.Prop)
				return res
			}
			v.Trace = ex.Trace
		}
	}
	res.WallMs = time.Since(start).Milliseconds()
	return res
}

// Main is the entry point of the generated driver binary.
//
//	driver -worker                       (internal)
//	driver -tasks tasks.json -out r.json explore all tasks on a worker pool
//	driver -list                         print registered program ids
func Main() {
	worker := flag.Bool("worker", false, "worker mode")
	tasksF := flag.String("tasks", "", "JSON file with a list of tasks")
	outF := flag.String("out", "", "JSON file for the list of results")
	list := flag.Bool("list", false, "list registered programs")
	flag.Parse()
	if *worker {
		mc.ServeWorker(func(b []byte) any {
			var t Task
			if err := json.Unmarshal(b, &t); err != nil {
				return &Result{ToolErr: err.Error()}
			}
			return runTask(&t)
		})
		return
	}
	if *list {
		var ids []string
		for id := range probe.Registry {
			ids = append(ids, id)
		}
		sort.Strings(ids)
		for _, id := range ids {
			fmt.Println(id)
		}
		return
	}
	b, err := os.ReadFile(*tasksF)
	if err != nil {
		mc.ToolError("driver: %v", err)
	}
	var tasks []Task
	if err := json.Unmarshal(b, &tasks); err != nil {
		mc.ToolError("driver: %v", err)
	}
	lines := make([][]byte, len(tasks))
	for i := range tasks {
		lines[i], _ = json.Marshal(tasks[i])
	}
	results := make([]json.RawMessage, len(tasks))
	done := 0
	err = mc.Pool(mc.Workers(), []string{"-worker"}, lines, func(i int, res []byte) {
		results[i] = append(json.RawMessage{}, res...)
		done++
		if done%500 == 0 {
			fmt.Fprintf(os.Stderr, "  .. %d/%d scenarios\n", done, len(tasks))
		}
	})
	if err != nil {
		mc.ToolError("driver: %v", err)
	}
	ob, _ := json.Marshal(results)
	if err := os.WriteFile(*outF, ob, 0o644); err != nil {
		mc.ToolError("driver: %v", err)
	}
}

// raceSummary keeps the informative lines of a race report.
func raceSummary(rep string) string {
	var keep []string
	n := 0
	for _, l := range strings.Split(rep, "\n") {
		t := strings.TrimSpace(l)
		if t == "" || strings.HasPrefix(t, "==================") {
			continue
		}
		if strings.Contains(t, "/zzverif/vs.") || strings.Contains(t, "engine/vs/") || strings.HasPrefix(t, "runtime.") {
			continue
		}
		keep = append(keep, "    "+t)
		n++
		if n >= 24 {
			break
		}
	}
	return strings.Join(keep, "\n")
}
