// Package genrt runs cff-generated programs (registered through package
// probe) on the rewritten scheduler under the vs explorer and judges every
// execution against the reference semantics of package progenum.
package genrt

import (
	"context"
	"errors"
	"fmt"
	"reflect"
	"sort"
	"strconv"
	"strings"
	"time"

	"go.uber.org/cff"
	"go.uber.org/cff/zzverif/vs"
	"go.uber.org/multierr"
	"verif/harness/probe"
	pg "verif/harness/progenum"
)

// Scenario is one closed run of a registered program.
type Scenario struct {
	Prog      string              `json:"prog"`
	N         int                 `json:"n,omitempty"`
	COE       bool                `json:"coe,omitempty"`
	Dec       map[string]string   `json:"dec,omitempty"`   // function id (or id#arg0) -> outcome kind
	PanicKind string              `json:"panic,omitempty"` // string|error|runtime|struct|panicerror|uncmp
	Colls     [][]uint64          `json:"colls,omitempty"`
	Maps      []map[string]uint64 `json:"maps,omitempty"`
	Cancel    string              `json:"cancel,omitempty"` // "", "pre", "thread"
	Ticks     int                 `json:"ticks,omitempty"`
	Instances int                 `json:"instances,omitempty"` // 2: two threads run the directive concurrently
	GOMAXP    int                 `json:"gomaxprocs,omitempty"`
	Note      string              `json:"note,omitempty"`
	// PreemptBound > 0: explore every schedule with fewer than PreemptBound
	// preemptions (plain DFS) instead of all interleavings
	PreemptBound int `json:"preempt_bound,omitempty"`
	// MaxExecs > 0 caps the number of executions (the scenario is then reported as capped, never as exhaustive)
	MaxExecs int64 `json:"max_execs,omitempty"`
	// OverN: number of over-limit barrier participants when one decision key covers several invocations (slice elements)
	OverN int `json:"over_n,omitempty"`
	prog  *pg.Program
	reg   *probe.Program
}

func (s *Scenario) String() string {
	var parts []string
	parts = append(parts, s.Prog)
	if s.N > 0 {
		parts = append(parts, fmt.Sprintf("N=%d", s.N))
	}
	if s.COE {
		parts = append(parts, "coe")
	}
	var ks []string
	for k := range s.Dec {
		ks = append(ks, k)
	}
	sort.Strings(ks)
	for _, k := range ks {
		parts = append(parts, strings.TrimPrefix(k, s.Prog+".")+"="+s.Dec[k])
	}
	if s.PanicKind != "" {
		parts = append(parts, "panicval="+s.PanicKind)
	}
	if len(s.Colls) > 0 {
		parts = append(parts, fmt.Sprintf("colls=%v", s.Colls))
	}
	if len(s.Maps) > 0 {
		parts = append(parts, fmt.Sprintf("maps=%v", s.Maps))
	}
	if s.Cancel != "" {
		parts = append(parts, "cancel="+s.Cancel)
	}
	if s.Ticks > 0 {
		parts = append(parts, fmt.Sprintf("ticks=%d", s.Ticks))
	}
	if s.Instances > 1 {
		parts = append(parts, fmt.Sprintf("instances=%d", s.Instances))
	}
	if s.GOMAXP > 0 {
		parts = append(parts, fmt.Sprintf("GOMAXPROCS=%d", s.GOMAXP))
	}
	if s.PreemptBound > 0 {
		parts = append(parts, fmt.Sprintf("preemptions<%d", s.PreemptBound))
	}
	if s.Note == "supplement" {
		parts = append(parts, "supplement")
	}
	return strings.Join(parts, " ")
}

// Resolve binds the scenario to its registered program.
func (s *Scenario) Resolve() error {
	reg := probe.Registry[s.Prog]
	if reg == nil {
		return fmt.Errorf("program %s is not linked into this driver", s.Prog)
	}
	p, err := pg.Parse(reg.Spec)
	if err != nil {
		return err
	}
	s.reg, s.prog = reg, p
	return nil
}

// Program returns the abstract program.
func (s *Scenario) Program() *pg.Program { return s.prog }

// Config returns the vs configuration of the scenario.
func (s *Scenario) Config() vs.Config {
	return vs.Config{Ticks: s.Ticks, MaxSteps: 6000, GOMAXPROCS: s.GOMAXP}
}

type panicStruct struct {
	A int
	B string
}

// panicUncmp is an error value of a type that cannot be compared with ==.
type panicUncmp struct {
	ID   string
	Tags []string
}

func (p panicUncmp) Error() string { return "uncomparable-panic(" + p.ID + ")" }

// PanicValue returns the value injected for a panicking function.
func (s *Scenario) PanicValue(id string) any {
	switch s.PanicKind {
	case "uncmp":
		return panicUncmp{ID: id, Tags: []string{"a", id}}
	case "error":
		return errors.New("panic-error(" + id + ")")
	case "struct":
		return panicStruct{A: len(id), B: id}
	case "panicerror":
		// the error of an inner directive, re-panicked by a must-style helper
		return &cff.PanicError{Value: "inner(" + id + ")", Stacktrace: []byte("inner stack")}
	}
	return "panic(" + id + ")"
}

type markerKey struct{}

// ---------------------------------------------------------------- run state + hooks

type call struct {
	ID   string
	Args []uint64
	Kind string
	Ev   vs.Event
	End  *vs.Event
	Tid  int
	Inst int
}

type emitRec struct {
	Em    int    // emitter index
	Scope string // "flow","parallel","task:<name>","sched"
	Ev    string
	Arg   any
	VC    vs.VC
	Tid   int
}

// Run is the state of one execution.
type Run struct {
	Sc       *Scenario
	Calls    []*call
	ArgLog   []argRec
	Outs     []*probe.Out
	Returned []bool
	RetVC    []vs.VC
	Errs     map[string]error // filled by finalize() on the explorer's goroutine
	Panics   map[string]any
	errLog   []errEnt // written by hooks on thread goroutines (no maps, no fmt there: see Hash in package probe)
	panicLog []panicEnt
	cancel   func()
	hSpawn   int // threads created by the harness itself (all from thread 0, before or around the directive)
	gate     *vs.Chan[struct{}]
	overbar  *vs.WaitGroup
	Misc     []Finding
	Emits    []emitRec
	ctx      context.Context
	CancelVC vs.VC
}

type errEnt struct {
	key string
	err error
}

type panicEnt struct {
	id  string
	val any
}

func (r *Run) errOf(key string) error {
	for _, e := range r.errLog {
		if e.key == key {
			return e.err
		}
	}
	return nil
}

// finalize builds the lookup maps the oracles use (explorer goroutine).
func (r *Run) finalize() {
	if r.Errs != nil {
		return
	}
	r.Errs, r.Panics = map[string]error{}, map[string]any{}
	for _, e := range r.errLog {
		r.Errs[e.key] = e.err
	}
	for _, e := range r.panicLog {
		r.Panics[e.id] = e.val
	}
}

func argsString(a []uint64) string {
	s := "["
	for i, x := range a {
		if i > 0 {
			s += " "
		}
		s += strconv.FormatUint(x, 10)
	}
	return s + "]"
}

type argRec struct {
	ID  string
	K   int
	Tid int
	VC  vs.VC
}

type hooks struct{ r *Run }

func (h hooks) decision(id string, args []uint64) string {
	d := h.r.Sc.Dec
	if len(args) > 0 {
		if k, ok := d[id+"#"+strconv.FormatUint(args[0], 10)]; ok {
			return k
		}
	}
	if k, ok := d[id]; ok {
		return k
	}
	return ""
}

func (h hooks) Start(id string, ctx context.Context, args []uint64) probe.Decision {
	r := h.r
	vs.Emit(id, "start", argsString(args))
	c := &call{ID: id, Args: append([]uint64{}, args...), Tid: vs.Tid()}
	c.Ev = vs.Event{VC: vs.Now()}
	r.Calls = append(r.Calls, c)
	if ctx != nil {
		inst, ok := ctx.Value(markerKey{}).(int)
		if !ok {
			r.Misc = append(r.Misc, Finding{"C09", fmt.Sprintf("%s received a context that is not (derived from) the directive's context", id)})
		}
		c.Inst = inst
	}
	k := h.decision(id, args)
	c.Kind = k
	d := probe.Decision{Kind: k}
	switch k {
	case probe.Fail, probe.GateFail:
		key := id
		if len(args) > 0 && strings.Contains(id, ".i") {
			key = id + "#" + strconv.FormatUint(args[0], 10)
		}
		d.Err = r.errOf(key)
		if d.Err == nil {
			d.Err = errors.New(key + " failed")
			r.errLog = append(r.errLog, errEnt{key, d.Err})
		}
	case probe.Panic:
		if r.Sc.PanicKind == "runtime" {
			d.RTPanic = true
		} else {
			d.PanicVal = r.Sc.PanicValue(id)
			r.panicLog = append(r.panicLog, panicEnt{id, d.PanicVal})
		}
	}
	return d
}

func (h hooks) End(id string, kind string) {
	vs.Emit(id, "end", kind)
	r := h.r
	for i := len(r.Calls) - 1; i >= 0; i-- {
		if r.Calls[i].ID == id && r.Calls[i].End == nil && r.Calls[i].Tid == vs.Tid() {
			e := vs.Event{VC: vs.Now()}
			r.Calls[i].End = &e
			break
		}
	}
}

func (h hooks) Arg(id string, k int) {
	vs.Emit("arg:"+id, "eval", k)
	h.r.ArgLog = append(h.r.ArgLog, argRec{ID: id, K: k, Tid: vs.Tid(), VC: vs.Now()})
}

func (h hooks) CancelCtx() {
	if h.r.cancel != nil {
		h.r.cancel()
		h.r.CancelVC = vs.Now()
	}
}

func (h hooks) Gate() { h.r.gate.Recv() }

func (h hooks) OverBar() {
	h.r.overbar.Done()
	h.r.overbar.Wait()
}

// Body returns the thread-0 body and the Run it fills.
func (s *Scenario) Body() (func(), *Run) {
	r := &Run{Sc: s}
	n := s.Instances
	if n < 1 {
		n = 1
	}
	r.Outs = make([]*probe.Out, n)
	r.Returned = make([]bool, n)
	r.RetVC = make([]vs.VC, n)
	return func() {
		probe.H = hooks{r}
		// contexts descend from a live cancellable standard-library context (see vs.LiveParent)
		var base context.Context = vs.LiveParent()
		if s.Cancel != "" || s.usesCancelDecision() {
			c, cf := vs.WithCancel(vs.LiveParent(), "dir")
			base = c
			r.cancel = cf
		}
		r.ctx = base
		r.gate = vs.NewChan[struct{}](0).Name("gate")
		r.overbar = &vs.WaitGroup{}
		nb := 0
		for _, k := range s.Dec {
			if k == probe.OverBar || k == probe.Bar {
				nb++
			}
		}
		if s.OverN > 0 {
			nb = s.OverN
		}
		if nb > 0 {
			r.overbar.Add(nb)
		}
		if s.Cancel == "pre" {
			r.cancel()
			r.CancelVC = vs.Now()
		}
		if s.Cancel == "thread" {
			r.hSpawn++
			vs.Go(func() { r.cancel(); r.CancelVC = vs.Now() })
		}
		// "prestack": one emitter stack with spare capacity, built once and shared by all instances
		var sharedStack cff.Emitter
		emKind := ""
		if s.prog.Flow != nil {
			emKind = s.prog.Flow.Emitters
		} else {
			emKind = s.prog.Par.Emitters
		}
		if emKind == "prestack" {
			sharedStack = cff.EmitterStack(&recEmitter{r: r, idx: 0}, &recEmitter{r: r, idx: 1}, &recEmitter{r: r, idx: 2})
		}
		runInst := func(inst int) {
			in := &probe.In{Ctx: context.WithValue(base, markerKey{}, inst), N: s.N, COE: s.COE, Inst: inst}
			for k := 0; k < 8; k++ {
				in.P = append(in.P, uint64(1000*(inst+1)+k))
			}
			in.Colls = s.Colls
			for _, m := range s.Maps {
				if m == nil {
					in.Maps = append(in.Maps, nil)
					continue
				}
				mm := map[uint64]uint64{}
				for k, v := range m {
					u, _ := strconv.ParseUint(k, 10, 64)
					mm[u] = v
				}
				in.Maps = append(in.Maps, mm)
			}
			ne := 0
			if s.prog.Flow != nil {
				ne = pg.EmitterCount(s.prog.Flow.Emitters)
			} else {
				ne = pg.EmitterCount(s.prog.Par.Emitters)
			}
			if emKind == "prestack" {
				in.Emit = append(in.Emit, sharedStack, &recEmitter{r: r, idx: 3 + inst})
			} else {
				for e := 0; e < ne; e++ {
					in.Emit = append(in.Emit, &recEmitter{r: r, idx: e})
				}
			}
			out := s.reg.Run(in)
			r.Outs[inst] = out
			r.Returned[inst] = true
			vs.Emit("caller", "returned", inst)
			r.RetVC[inst] = vs.Now()
		}
		// Gated functions are released once every instance has returned - by a thread of its own, so that the
		// release carries no happens-before edge from the caller's code after the directive (race build).
		if s.usesGate() {
			r.hSpawn++
			vs.Go(func() {
				vs.WaitUntil(func() bool {
					for _, b := range r.Returned {
						if !b {
							return false
						}
					}
					return true
				}, "all-returned")
				r.gate.Close()
			})
		}
		if n == 1 {
			runInst(0)
		} else {
			done := vs.NewChan[struct{}](0).Name("inst-done")
			for i := 1; i < n; i++ {
				i := i
				r.hSpawn++
				vs.Go(func() { runInst(i); done.Send(struct{}{}) })
			}
			runInst(0)
			for i := 1; i < n; i++ {
				done.Recv()
			}
		}
		if !s.usesGate() {
			r.gate.Close()
		}
		vs.Emit("caller", "end", nil)
	}, r
}

func (s *Scenario) usesGate() bool {
	for _, k := range s.Dec {
		if k == probe.Gate || k == probe.GateFail {
			return true
		}
	}
	return false
}

func (s *Scenario) usesCancelDecision() bool {
	for _, k := range s.Dec {
		if k == probe.Cancel {
			return true
		}
	}
	return false
}

// ---------------------------------------------------------------- recording emitter (C18)

type recEmitter struct {
	r   *Run
	idx int
}

func (e *recEmitter) rec(scope, ev string, arg any) {
	vs.Emit("em"+strconv.Itoa(e.idx)+":"+scope, ev, stableArg(arg))
	e.r.Emits = append(e.r.Emits, emitRec{Em: e.idx, Scope: scope, Ev: ev, Arg: arg, VC: vs.Now(), Tid: vs.Tid()})
}

// stableArg renders an emitter argument for the visible trace: no stack
// traces (PanicError.Error() prints one), no fmt (see Hash in package probe).
func stableArg(arg any) string {
	switch v := arg.(type) {
	case nil:
		return "<nil>"
	case string:
		return v
	case panicStruct:
		return "panicStruct{" + strconv.Itoa(v.A) + " " + v.B + "}"
	case cff.SchedulerState:
		return "state{P" + strconv.Itoa(v.Pending) + " R" + strconv.Itoa(v.Ready) + " W" + strconv.Itoa(v.Waiting) + " I" + strconv.Itoa(v.IdleWorkers) + " C" + strconv.Itoa(v.Concurrency) + "}"
	case error:
		if es := multierr.Errors(v); len(es) > 1 {
			s := "multi["
			for i, e := range es {
				if i > 0 {
					s += "; "
				}
				s += stableArg(e)
			}
			return s + "]"
		}
		var pe *cff.PanicError
		if errors.As(v, &pe) {
			return "PanicError(" + stableArg(pe.Value) + ")"
		}
		return v.Error()
	}
	return reflect.TypeOf(arg).String()
}

type recScoped struct {
	e     *recEmitter
	scope string
}

func (e *recEmitter) TaskInit(t *cff.TaskInfo, d *cff.DirectiveInfo) cff.TaskEmitter {
	return recScoped{e, "task:" + t.Name}
}
func (e *recEmitter) FlowInit(f *cff.FlowInfo) cff.FlowEmitter { return recScoped{e, "flow"} }
func (e *recEmitter) ParallelInit(p *cff.ParallelInfo) cff.ParallelEmitter {
	return recScoped{e, "parallel"}
}
func (e *recEmitter) SchedulerInit(s *cff.SchedulerInfo) cff.SchedulerEmitter {
	return recScoped{e, "sched"}
}

func (s recScoped) EmitScheduler(st cff.SchedulerState)         { s.e.rec(s.scope, "state", st) }
func (s recScoped) FlowSuccess(context.Context)                 { s.e.rec(s.scope, "Success", nil) }
func (s recScoped) FlowError(_ context.Context, err error)      { s.e.rec(s.scope, "Error", err) }
func (s recScoped) FlowDone(context.Context, time.Duration)     { s.e.rec(s.scope, "Done", nil) }
func (s recScoped) ParallelSuccess(context.Context)             { s.e.rec(s.scope, "Success", nil) }
func (s recScoped) ParallelError(_ context.Context, err error)  { s.e.rec(s.scope, "Error", err) }
func (s recScoped) ParallelDone(context.Context, time.Duration) { s.e.rec(s.scope, "Done", nil) }
func (s recScoped) TaskSuccess(context.Context)                 { s.e.rec(s.scope, "TaskSuccess", nil) }
func (s recScoped) TaskError(_ context.Context, err error)      { s.e.rec(s.scope, "TaskError", err) }
func (s recScoped) TaskErrorRecovered(_ context.Context, err error) {
	s.e.rec(s.scope, "TaskErrorRecovered", err)
}
func (s recScoped) TaskSkipped(_ context.Context, err error) { s.e.rec(s.scope, "TaskSkipped", err) }
func (s recScoped) TaskPanic(_ context.Context, v interface{}) {
	s.e.rec(s.scope, "TaskPanic", v)
}
func (s recScoped) TaskPanicRecovered(_ context.Context, v interface{}) {
	s.e.rec(s.scope, "TaskPanicRecovered", v)
}
func (s recScoped) TaskDone(context.Context, time.Duration) { s.e.rec(s.scope, "TaskDone", nil) }

// ---------------------------------------------------------------- oracles

// Finding is one property violation observed in an execution.
type Finding struct {
	Prop string
	Msg  string
}

func sameArgs(a, b []uint64) bool {
	if len(a) != len(b) {
		return false
	}
	for i := range a {
		if a[i] != b[i] {
			return false
		}
	}
	return true
}

func panicValueMatches(got, want any) bool {
	cmp := func(v any) bool { return v == nil || reflect.TypeOf(v).Comparable() }
	if cmp(got) && cmp(want) {
		if got == want {
			return true
		}
		ge, ok1 := got.(error)
		we, ok2 := want.(error)
		if ok1 && ok2 {
			return ge == we
		}
	}
	return reflect.DeepEqual(got, want)
}

// Check evaluates every oracle on one finished execution.
func Check(r *Run, ex *vs.Exec) []Finding {
	r.finalize()
	var out []Finding
	add := func(p, f string, a ...any) { out = append(out, Finding{p, fmt.Sprintf(f, a...)}) }
	s := r.Sc
	out = append(out, r.Misc...)

	switch ex.Term {
	case vs.TermCrash:
		prop := "C05"
		if len(r.Panics) > 0 || s.PanicKind == "runtime" {
			prop = "C04"
		}
		add(prop, "a panic escaped to thread %d (the process would have died): %v", ex.CrashTid, ex.CrashVal)
		return out
	case vs.TermHorizon:
		add("C05", "livelock: step horizon exceeded (%d steps)", ex.Steps)
		return out
	}
	hasGate := false
	nOver := 0
	for _, k := range s.Dec {
		if k == probe.Gate || k == probe.GateFail {
			hasGate = true
		}
		if k == probe.OverBar {
			nOver++
		}
	}
	nBar := 0
	for _, k := range s.Dec {
		if k == probe.Bar {
			nBar++
		}
	}
	if nBar > 0 && !(len(ex.Threads) > 0 && ex.Threads[0].Done) {
		var blocked []string
		for _, t := range ex.Threads {
			if !t.Done {
				blocked = append(blocked, fmt.Sprintf("T%d(%s) on %s", t.ID, t.Name, t.Pending))
			}
		}
		if s.OverN > 0 {
			nBar = s.OverN
		}
		if len(blocked) > 8 {
			blocked = append(blocked[:8], fmt.Sprintf("... %d threads in all", len(blocked)))
		}
		add("C03", "capacity lost: %d user functions that are all runnable and must execute at the same time (limit %d) never all ran; blocked: %s", nBar, nBar, strings.Join(blocked, "; "))
		return out
	}
	if s.OverN > 0 && nOver > 0 {
		nOver = s.OverN
	}
	if nOver > 0 {
		// limit+1 functions that only return once all of them run at the same time
		passed := 0
		for _, c := range r.Calls {
			if c.Kind == probe.OverBar && c.End != nil {
				passed++
			}
		}
		if passed > 0 {
			add("C03", "%d user functions were executing at the same time (they only return once all %d of them run simultaneously); the concurrency limit is %d", nOver, nOver, nOver-1)
		}
		// otherwise they block forever by construction: nothing else to judge
		return out
	}
	callerDone := len(ex.Threads) > 0 && ex.Threads[0].Done
	if !callerDone {
		var blocked []string
		for _, t := range ex.Threads {
			if !t.Done {
				blocked = append(blocked, fmt.Sprintf("T%d(%s) on %s", t.ID, t.Name, t.Pending))
			}
		}
		if hasGate && s.Cancel == "" && !s.usesCancelDecision() {
			// premise of C05 not met (a gated function only returns after the directive did)
		} else if hasGate {
			add("C09", "the directive did not return after its context was cancelled while a task was still running; blocked: %s", strings.Join(blocked, "; "))
		} else {
			add("C05", "deadlock: the directive never returned; blocked: %s", strings.Join(blocked, "; "))
		}
		return out
	}
	for _, t := range ex.Threads {
		if !t.Done {
			add("C06", "goroutine leak: thread %d (%s) still blocked on %s after the directive returned and all tasks finished", t.ID, t.Name, t.Pending)
		}
	}

	// group calls by id (and instance where known)
	byID := map[string][]*call{}
	for _, c := range r.Calls {
		byID[c.ID] = append(byID[c.ID], c)
	}
	cancelled := r.CancelVC != nil
	for inst := range r.Outs {
		o := r.Outs[inst]
		if o == nil {
			continue
		}
		if s.prog.Flow != nil {
			out = append(out, checkFlow(r, inst, o, byID)...)
		} else {
			out = append(out, checkPar(r, inst, o, byID)...)
		}
		// C09: nothing starts after the cancellation; the call reports it
		if cancelled {
			for _, c := range r.Calls {
				if vs.HB(r.CancelVC, c.Ev.VC) {
					add("C09", "%s was started after the directive's context was cancelled (cancel happens-before its start)", c.ID)
				}
			}
			if vs.HB(r.CancelVC, r.RetVC[inst]) && o.Err == nil {
				add("C09", "the directive returned nil although its context was cancelled before it returned")
			}
		}
		out = append(out, checkArgs(r, inst)...)
		out = append(out, checkEmitters(r, inst, o, byID)...)
	}
	// C19 at the level of generated code (through the root package's adapter):
	// every scheduler state report is consistent with itself and with the limit
	{
		lim := effLimit(s)
		jobs := 0
		withDeps := 0
		if s.prog.Flow != nil {
			for _, t := range s.prog.Flow.Tasks {
				jobs++
				if len(t.In) > 0 || t.Pred != nil {
					withDeps++
				}
				if t.Pred != nil {
					jobs++
					if len(t.Pred.In) > 0 {
						withDeps++
					}
				}
			}
		}
		seenState := map[string]bool{}
		for _, e := range r.Emits {
			if e.Scope != "sched" || e.Em != 0 {
				continue
			}
			st, ok := e.Arg.(cff.SchedulerState)
			if !ok {
				continue
			}
			key := stableArg(st)
			if seenState[key] {
				continue
			}
			seenState[key] = true
			exec := st.Pending - st.Ready - st.Waiting
			switch {
			case st.Pending < 0 || st.Ready < 0 || st.Waiting < 0 || st.IdleWorkers < 0 || st.Concurrency < 0:
				add("C19", "negative count in scheduler state report %s", key)
			case exec < 0 || (lim > 0 && exec > lim):
				add("C19", "scheduler state report %s: executing = Pending-Ready-Waiting = %d outside [0,%d]", key, exec, lim)
			case lim > 0 && st.Concurrency != lim:
				add("C19", "scheduler state report %s: Concurrency is not the configured limit %d", key, lim)
			case st.IdleWorkers != st.Concurrency-exec:
				add("C19", "scheduler state report %s: IdleWorkers != Concurrency - executing (%d)", key, st.Concurrency-exec)
			case s.prog.Flow != nil && len(r.Outs) == 1 && st.Pending > jobs:
				add("C19", "scheduler state report %s: Pending exceeds the %d jobs of the flow", key, jobs)
			case s.prog.Flow != nil && len(r.Outs) == 1 && st.Waiting > withDeps:
				add("C19", "scheduler state report %s: Waiting exceeds the %d jobs that have dependencies", key, withDeps)
			}
		}
	}
	// C03: bounded concurrency of user functions
	limit := effLimit(s)
	// C03: the goroutines one directive creates are the scheduler loop, the starter of the workers, `limit` workers and one
	// replacement per worker killed by runtime.Goexit - whatever the number of tasks, elements or reports
	if limit > 0 {
		goexits := 0
		for _, c := range r.Calls {
			if c.Kind == probe.Goexit {
				goexits++
			}
		}
		created := ex.Spawned - 1 - r.hSpawn
		if bound := len(r.Outs)*(2+limit) + goexits; created > bound {
			var names []string
			for _, t := range ex.Threads {
				names = append(names, t.Name)
			}
			add("C03", "the directive created %d goroutines; with limit %d the scheduler needs %d (one loop, one starter, %d workers%s); threads by creation path: %s", created, limit, bound, limit,
				map[bool]string{true: fmt.Sprintf(", %d replacements for workers killed by Goexit", goexits), false: ""}[goexits > 0], strings.Join(names, " "))
		}
	}
	if limit > 0 && len(r.Outs) == 1 {
		var started []*call
		for _, c := range r.Calls {
			started = append(started, c)
		}
		if len(started) <= 12 {
			best := maxConcurrent(started)
			if best > limit {
				add("C03", "%d user functions can execute simultaneously, the limit is %d", best, limit)
			}
		}
	}
	return out
}

// effLimit is the concurrency limit in force in the scenario (0: unknown).
// The scenario's N only matters when the directive takes its limit from the harness.
func effLimit(s *Scenario) int {
	c := progConc(s.prog)
	if c == "expr" {
		return s.N
	}
	limit := concOf(s.prog)
	if c == "" && s.GOMAXP > 4 {
		limit = s.GOMAXP
	}
	return limit
}

func progConc(p *pg.Program) string {
	if p.Flow != nil {
		return p.Flow.Conc
	}
	if p.Par != nil {
		return p.Par.Conc
	}
	return ""
}

func concOf(p *pg.Program) int {
	c := progConc(p)
	switch c {
	case "1":
		return 1
	case "2":
		return 2
	case "":
		return 4
	}
	return 0
}

func maxConcurrent(cs []*call) int {
	conc := func(a, b *call) bool {
		if a.End != nil && vs.HB(a.End.VC, b.Ev.VC) {
			return false
		}
		if b.End != nil && vs.HB(b.End.VC, a.Ev.VC) {
			return false
		}
		return true
	}
	best := 0
	n := len(cs)
	for m := 1; m < 1<<n; m++ {
		var set []*call
		for b := 0; b < n; b++ {
			if m&(1<<b) != 0 {
				set = append(set, cs[b])
			}
		}
		if len(set) <= best {
			continue
		}
		ok := true
		for x := 0; x < len(set) && ok; x++ {
			for y := x + 1; y < len(set); y++ {
				if !conc(set[x], set[y]) {
					ok = false
					break
				}
			}
		}
		if ok {
			best = len(set)
		}
	}
	return best
}

func instCalls(cs []*call, inst int, multi bool, params func(c *call) bool) []*call {
	if !multi {
		return cs
	}
	var o []*call
	for _, c := range cs {
		if params(c) {
			o = append(o, c)
		}
	}
	return o
}

// checkErr verifies that a non-nil error of a fail-fast directive is one of
// the failures that actually happened (C07/C04).
func checkErr(r *Run, err error, ran []*call, cancelled bool) []Finding {
	var out []Finding
	add := func(p, f string, a ...any) { out = append(out, Finding{p, fmt.Sprintf(f, a...)}) }
	var pe *cff.PanicError
	if errors.As(err, &pe) {
		ok := false
		for _, c := range ran {
			if c.Kind == probe.Panic {
				if r.Sc.PanicKind == "runtime" {
					if re, isRT := pe.Value.(interface{ RuntimeError() }); isRT && re != nil {
						ok = true
					}
				} else if panicValueMatches(pe.Value, r.Panics[c.ID]) {
					ok = true
				}
			}
		}
		if !ok {
			add("C04", "returned PanicError carries value %v which is not the value any user function panicked with in this execution", pe.Value)
		}
		if len(pe.Stacktrace) == 0 {
			add("C04", "returned PanicError has no stack trace")
		}
		return out
	}
	for _, c := range ran {
		if c.Kind == probe.Fail {
			for _, e := range r.Errs {
				if errors.Is(err, e) && strings.HasPrefix(e.Error(), c.ID) {
					return out
				}
			}
		}
	}
	if cancelled && (errors.Is(err, context.Canceled)) {
		return out
	}
	for _, c := range ran {
		if c.Kind == probe.Goexit && err.Error() == "job exited unexpectedly" {
			return out
		}
	}
	onlyPanics := true
	anyPanic := false
	for _, c := range ran {
		if c.Kind == probe.Fail {
			onlyPanics = false
		}
		if c.Kind == probe.Panic {
			anyPanic = true
		}
	}
	if anyPanic && onlyPanics {
		add("C04", "a user function panicked but errors.As(err, *cff.PanicError) fails on the returned error %q", err)
	} else {
		add("C07", "the directive returned %q, which is neither the error of a function that failed in this execution, nor its PanicError, nor the context's error", err)
	}
	return out
}

// EagerPairs lists, for a flow scenario in which nothing fails, the pairs
// "predicate of task i / task p" such that p provides an input of task i but is
// not an ancestor of the predicate: the predicate is to be evaluated as soon as
// its own inputs are there (C11), so with two workers some schedule must start
// it without a happens-before edge from the return of p. Keys are "i/p".
func EagerPairs(s *Scenario) []string {
	if s.prog == nil || s.prog.Flow == nil || s.Instances > 1 || s.Cancel != "" || effLimit(s) < 2 {
		return nil
	}
	for _, d := range s.Dec {
		if d != probe.True && d != probe.OK {
			return nil
		}
	}
	f := s.prog.Flow
	prov := f.Providers()
	var anc func(ins []int, seen map[int]bool)
	anc = func(ins []int, seen map[int]bool) {
		for _, in := range ins {
			pi, ok := prov[in]
			if !ok || pi < 0 || seen[pi] {
				continue
			}
			seen[pi] = true
			anc(f.Tasks[pi].In, seen)
			if f.Tasks[pi].Pred != nil {
				anc(f.Tasks[pi].Pred.In, seen)
			}
		}
	}
	var out []string
	for i, t := range f.Tasks {
		if t.Pred == nil {
			continue
		}
		a := map[int]bool{}
		anc(t.Pred.In, a)
		for _, in := range t.In {
			if pi, ok := prov[in]; ok && pi >= 0 && !a[pi] && pi != i {
				out = append(out, strconv.Itoa(i)+"/"+strconv.Itoa(pi))
			}
		}
	}
	return out
}

// WantsSchedulerReport: the scenario gives the scheduler's ticker a budget and the directive has a
// live user emitter, so some schedule must deliver a scheduler state report to it (C18/C19: an emitter
// receives in any combination what it would receive alone).
func WantsSchedulerReport(s *Scenario) bool {
	if s.prog == nil || s.Ticks <= 0 || s.Instances > 1 || s.Cancel == "pre" {
		return false
	}
	if s.prog.Flow != nil {
		return s.prog.Flow.Emitters != ""
	}
	return s.prog.Par != nil && s.prog.Par.Emitters != ""
}

// EagerWitnessed returns the pairs of EagerPairs for which this execution
// shows the predicate starting without happening-after the provider's return.
func EagerWitnessed(r *Run, pairs []string) []string {
	var out []string
	pid := r.Sc.Prog
	first := func(id string) *call {
		for _, c := range r.Calls {
			if c.ID == id {
				return c
			}
		}
		return nil
	}
	for _, k := range pairs {
		var i, p int
		fmt.Sscanf(k, "%d/%d", &i, &p)
		pc, tc := first(pg.PredID(pid, i)), first(pg.TaskID(pid, p))
		if pc == nil {
			continue
		}
		if tc == nil || tc.End == nil || !vs.HB(tc.End.VC, pc.Ev.VC) {
			out = append(out, k)
		}
	}
	return out
}

func checkFlow(r *Run, inst int, o *probe.Out, byID map[string][]*call) []Finding {
	var out []Finding
	add := func(p, f string, a ...any) { out = append(out, Finding{p, fmt.Sprintf(f, a...)}) }
	s := r.Sc
	f := s.prog.Flow
	pid := s.Prog
	multi := len(r.Outs) > 1
	params := make([]uint64, len(f.Params))
	for k := range params {
		params[k] = uint64(1000*(inst+1) + k)
	}
	decide := func(id string) string { return s.Dec[id] }
	ref := f.Eval(pid, params, decide)
	cancelled := r.CancelVC != nil
	mine := func(id string, want []uint64) []*call {
		cs := byID[id]
		if !multi {
			return cs
		}
		// attribute by expected arguments (instances use disjoint parameter seeds)
		var o []*call
		for _, c := range cs {
			if sameArgs(c.Args, want) {
				o = append(o, c)
			}
		}
		return o
	}
	var ran []*call
	for i := range f.Tasks {
		id := pg.TaskID(pid, i)
		cs := mine(id, ref.Args[i])
		if multi && !ref.BodyRuns[i] {
			cs = nil
		}
		ran = append(ran, cs...)
		n := len(cs)
		if n > 1 {
			add("C02", "task %d was invoked %d times in one execution of the flow", i, n)
		}
		switch ref.State[i] {
		case pg.StDisabled:
			if n > 0 {
				add("C11", "task %d was invoked although its predicate returned false", i)
			}
		case pg.StPredFail:
			if n > 0 {
				add("C11", "task %d was invoked although its predicate panicked", i)
			}
		case pg.StBlocked:
			if n > 0 {
				add("C07", "task %d was invoked although a task it (transitively) depends on failed", i)
			}
		default:
			if n >= 1 && !sameArgs(cs[0].Args, ref.Args[i]) {
				add("C02", "task %d was called with %v, its providers produced %v", i, cs[0].Args, ref.Args[i])
			}
			if n > 0 && !ref.BodyRuns[i] {
				add("C11", "task %d was invoked although its predicate panicked (the fallback values stand in for it)", i)
			}
			if n == 0 && o.Err == nil && !multi && ref.BodyRuns[i] {
				if f.Tasks[i].Pred != nil {
					add("C11", "the flow returned nil but task %d (predicate true, providers succeeded) was never invoked", i)
				} else {
					add("C02", "the flow returned nil but task %d was never invoked", i)
				}
			}
		}
		if f.Tasks[i].Pred != nil {
			pidd := pg.PredID(pid, i)
			ps := mine(pidd, ref.PredArgs[i])
			if multi && !ref.PredRuns[i] {
				ps = nil
			}
			ran = append(ran, ps...)
			if len(ps) > 1 {
				add("C11", "predicate of task %d was evaluated %d times", i, len(ps))
			}
			if !ref.PredRuns[i] && len(ps) > 0 {
				add("C07", "predicate of task %d was evaluated although a provider of its inputs failed", i)
			}
			if ref.PredRuns[i] && len(ps) >= 1 && !sameArgs(ps[0].Args, ref.PredArgs[i]) {
				add("C11", "predicate of task %d was called with %v, its providers produced %v", i, ps[0].Args, ref.PredArgs[i])
			}
			if ref.PredRuns[i] && len(ps) == 0 && o.Err == nil && !multi {
				add("C11", "the flow returned nil but the predicate of task %d was never evaluated", i)
			}
		}
	}
	// C01: every invocation happens-after the end of the providers of its inputs
	// and of its own predicate (vector clocks, not observed order: a missing
	// dependency edge is a violation even in schedules where the value happened
	// to be there already)
	if !multi {
		prov := f.Providers()
		endOf := func(id string) *vs.Event {
			if cs := byID[id]; len(cs) == 1 && cs[0].End != nil {
				return cs[0].End
			}
			return nil
		}
		needs := func(what string, startVC vs.VC, ins []int, who string) {
			for _, in := range ins {
				pi, ok := prov[in]
				if !ok || pi < 0 {
					continue
				}
				if ref.State[pi] == pg.StDisabled {
					continue
				}
				e := endOf(pg.TaskID(pid, pi))
				if e == nil {
					if len(byID[pg.TaskID(pid, pi)]) == 0 && !ref.UsedFB[pi] {
						add("C01", "%s started but the provider of its input (task %d) was never invoked", who, pi)
					}
					continue
				}
				if !vs.HB(e.VC, startVC) {
					add("C01", "%s started without happening-after the return of task %d, which provides its %s (a dependency edge is missing)", who, pi, what)
				}
			}
		}
		for i, t := range f.Tasks {
			for _, c := range byID[pg.TaskID(pid, i)] {
				needs("input", c.Ev.VC, t.In, fmt.Sprintf("task %d", i))
				if t.Pred != nil {
					if e := endOf(pg.PredID(pid, i)); e == nil {
						add("C01", "task %d started although its predicate had not been evaluated", i)
					} else if !vs.HB(e.VC, c.Ev.VC) {
						add("C01", "task %d started without happening-after the return of its predicate (a dependency edge is missing)", i)
					}
				}
			}
			if t.Pred != nil {
				for _, c := range byID[pg.PredID(pid, i)] {
					needs("input", c.Ev.VC, t.Pred.In, fmt.Sprintf("predicate of task %d", i))
				}
			}
		}
	}
	if !cancelled {
		if ref.AnyFail && o.Err == nil {
			add("C07", "the flow returned nil although task(s) %v fail", ref.FailTasks)
		}
		if !ref.AnyFail && o.Err != nil {
			add("C02", "the flow returned %q although no task fails", o.Err)
		}
	}
	if o.Err != nil {
		out = append(out, checkErr(r, o.Err, ran, cancelled)...)
		for j := range f.Results {
			if j < len(o.R) && o.R[j] != probe.Sentinel(j) {
				add("C07", "the flow failed but Results target %d was modified", j)
			}
		}
	} else {
		for j, ty := range f.Results {
			if j < len(o.R) && ref.Have[ty] && o.R[j] != ref.Val[ty] {
				prop := "C02"
				for i, t := range f.Tasks {
					for _, oo := range t.Out {
						if oo == ty && (ref.State[i] == pg.StDisabled || ref.UsedFB[i]) {
							prop = "C11"
						}
					}
				}
				add(prop, "Results target %d holds %d, its provider produced %d", j, o.R[j], ref.Val[ty])
			}
		}
		// fallback values must not be used when the task succeeded: covered by value comparison above
	}
	return out
}

// expected element invocations of a parallel item
func expectElems(s *Scenario, it pg.Item) [][]uint64 {
	var want [][]uint64
	switch it.Kind {
	case "slice":
		var c []uint64
		if it.Coll < len(s.Colls) {
			c = s.Colls[it.Coll]
		}
		for i, v := range c {
			if it.Idx {
				want = append(want, []uint64{uint64(i), v})
			} else {
				want = append(want, []uint64{v})
			}
		}
	case "map":
		if it.Coll < len(s.Maps) {
			var ks []string
			for k := range s.Maps[it.Coll] {
				ks = append(ks, k)
			}
			sort.Strings(ks)
			for _, k := range ks {
				u, _ := strconv.ParseUint(k, 10, 64)
				want = append(want, []uint64{u, s.Maps[it.Coll][k]})
			}
		}
	}
	return want
}

func argKey(a []uint64) string { return fmt.Sprint(a) }

func checkPar(r *Run, inst int, o *probe.Out, byID map[string][]*call) []Finding {
	var out []Finding
	add := func(p, f string, a ...any) { out = append(out, Finding{p, fmt.Sprintf(f, a...)}) }
	s := r.Sc
	par := s.prog.Par
	pid := s.Prog
	coe := par.COE == "true" || (par.COE == "expr" && s.COE)
	cancelled := r.CancelVC != nil
	var ran []*call
	type unit struct {
		id   string
		args []uint64 // nil for plain functions
		item int
	}
	var units []unit
	for k, it := range par.Items {
		switch it.Kind {
		case "task":
			units = append(units, unit{pg.ItemID(pid, k), nil, k})
		case "tasks":
			for j := 0; j < it.Count; j++ {
				units = append(units, unit{pg.SubID(pid, k, j), nil, k})
			}
		default:
			for _, a := range expectElems(s, it) {
				units = append(units, unit{pg.ItemID(pid, k), a, k})
			}
		}
	}
	anyFail := false
	failedItem := map[int]bool{}
	var wantErrs []string
	for _, u := range units {
		cs := byID[u.id]
		var match []*call
		for _, c := range cs {
			if u.args == nil || sameArgs(c.Args, u.args) {
				match = append(match, c)
			}
		}
		ran = append(ran, match...)
		kind := ""
		if len(u.args) > 0 {
			kind = s.Dec[u.id+"#"+strconv.FormatUint(u.args[0], 10)]
		}
		if kind == "" {
			kind = s.Dec[u.id]
		}
		fails := kind == probe.Fail || kind == probe.Panic || kind == probe.Goexit
		if fails {
			anyFail = true
			failedItem[u.item] = true
		}
		if len(match) > 1 {
			add("C10", "%s%v was invoked %d times", u.id, u.args, len(match))
		}
		if len(match) == 0 && !cancelled {
			if o.Err == nil {
				add("C10", "Parallel returned nil but %s%v was never invoked", u.id, u.args)
			} else if coe {
				add("C08", "ContinueOnError: %s%v was never invoked although nothing it depends on failed", u.id, u.args)
			}
		}
		if fails && len(match) >= 1 {
			switch kind {
			case probe.Fail:
				key := u.id
				if len(u.args) > 0 {
					key = u.id + "#" + strconv.FormatUint(u.args[0], 10)
				}
				wantErrs = append(wantErrs, "err:"+key)
			case probe.Panic:
				wantErrs = append(wantErrs, "panic:"+u.id)
			case probe.Goexit:
				wantErrs = append(wantErrs, "goexit")
			}
		}
	}
	// invocations with unexpected arguments
	for k, it := range par.Items {
		if it.Kind != "slice" && it.Kind != "map" {
			continue
		}
		want := map[string]int{}
		for _, a := range expectElems(s, it) {
			want[argKey(a)]++
		}
		for _, c := range byID[pg.ItemID(pid, k)] {
			if want[argKey(c.Args)] == 0 {
				add("C10", "%s was invoked with %v, which is not an (index, element) / (key, value) pair of its collection %v", c.ID, c.Args, expectElems(s, it))
			}
		}
	}
	// End hooks
	for k, it := range par.Items {
		if it.End == nil {
			continue
		}
		eid := pg.EndID(pid, k)
		es := byID[eid]
		ran = append(ran, es...)
		if len(es) > 1 {
			add("C10", "End hook of item %d ran %d times", k, len(es))
		}
		if failedItem[k] && len(es) > 0 {
			add("C10", "End hook of item %d ran although an element call of its collection failed or panicked", k)
		}
		if len(es) == 0 && o.Err == nil && !cancelled {
			add("C10", "Parallel returned nil but the End hook of item %d never ran", k)
		}
		for _, e := range es {
			for _, c := range byID[pg.ItemID(pid, k)] {
				if c.End == nil || !vs.HB(c.End.VC, e.Ev.VC) {
					add("C10", "End hook of item %d started without happening-after the return of element call %v", k, c.Args)
				}
			}
			if want := len(expectElems(s, it)); len(byID[pg.ItemID(pid, k)]) < want {
				add("C10", "End hook of item %d ran after only %d of %d element calls", k, len(byID[pg.ItemID(pid, k)]), want)
			}
		}
		kind := s.Dec[eid]
		if kind == probe.Fail || kind == probe.Panic || kind == probe.Goexit {
			if !failedItem[k] {
				anyFail = true
				if len(es) > 0 {
					switch kind {
					case probe.Fail:
						wantErrs = append(wantErrs, "err:"+eid)
					case probe.Panic:
						wantErrs = append(wantErrs, "panic:"+eid)
					default:
						wantErrs = append(wantErrs, "goexit")
					}
				}
			}
		}
	}
	if !cancelled {
		if anyFail && o.Err == nil {
			prop := "C07"
			if coe {
				prop = "C08"
			}
			add(prop, "Parallel returned nil although a function fails")
		}
		if !anyFail && o.Err != nil {
			add("C10", "Parallel returned %q although nothing fails", o.Err)
		}
	}
	if o.Err != nil {
		if !coe {
			out = append(out, checkErr(r, o.Err, ran, cancelled)...)
		} else {
			// C08: exactly one entry per failed function
			var got []string
			rtUsed := map[*call]bool{}
			for _, e := range multierr.Errors(o.Err) {
				var pe *cff.PanicError
				switch {
				case e.Error() == "job invalid":
					add("C08", "internal sentinel %q leaked into the returned error", e)
				case errors.As(e, &pe):
					found := ""
					for id, v := range r.Panics {
						if panicValueMatches(pe.Value, v) {
							found = id
						}
					}
					if r.Sc.PanicKind == "runtime" {
						// genuine runtime errors carry no identity: match each entry with a
						// panicking invocation not matched yet
						if _, isRT := pe.Value.(interface{ RuntimeError() }); isRT {
							for _, c := range ran {
								if c.Kind == probe.Panic && !rtUsed[c] {
									rtUsed[c] = true
									found = c.ID
									break
								}
							}
						}
					}
					if found == "" {
						add("C04", "ContinueOnError: PanicError with value %v that no function panicked with", pe.Value)
					}
					got = append(got, "panic:"+found)
				case errors.Is(e, context.Canceled) && cancelled:
					got = append(got, "ctx")
				case e.Error() == "job exited unexpectedly":
					got = append(got, "goexit")
				default:
					key := ""
					for k, ee := range r.Errs {
						if e == ee {
							key = k
						}
					}
					if key == "" {
						add("C08", "ContinueOnError: returned entry %q is not the error value any function returned", e)
					}
					got = append(got, "err:"+key)
				}
			}
			if !cancelled {
				sort.Strings(got)
				sort.Strings(wantErrs)
				if strings.Join(got, "|") != strings.Join(wantErrs, "|") {
					add("C08", "ContinueOnError: returned entries %v, want exactly one per failed function: %v", got, wantErrs)
				}
			}
		}
	}
	return out
}

// checkArgs: C15 - every wrapped directive argument evaluated exactly once,
// in source order, on the calling thread, before any user function starts.
func checkArgs(r *Run, inst int) []Finding {
	var out []Finding
	if !r.Sc.prog.F.Wrap || len(r.Outs) > 1 {
		return out
	}
	add := func(p, f string, a ...any) { out = append(out, Finding{p, fmt.Sprintf(f, a...)}) }
	want := CountArgs(r.Sc.prog)
	var ks []int
	for _, a := range r.ArgLog {
		ks = append(ks, a.K)
		if a.Tid != 0 {
			add("C15", "argument %d was evaluated on thread %d, not on the calling goroutine", a.K, a.Tid)
		}
		for _, c := range r.Calls {
			if !vs.HB(a.VC, c.Ev.VC) {
				add("C15", "argument %d is not evaluated before %s starts", a.K, c.ID)
			}
		}
	}
	ok := len(ks) == want
	for i := range ks {
		if ks[i] != i {
			ok = false
		}
	}
	if !ok {
		add("C15", "directive arguments were evaluated in order %v; want each of 0..%d exactly once in source order", ks, want-1)
	}
	return out
}

// CountArgs returns how many probe.Tr wrappers the renderer emitted.
func CountArgs(p *pg.Program) int {
	src := pg.Render(p, "x", "x")
	return strings.Count(src, "probe.Tr(")
}

// checkEmitters: C18.
func checkEmitters(r *Run, inst int, o *probe.Out, byID map[string][]*call) []Finding {
	var out []Finding
	add := func(p, f string, a ...any) { out = append(out, Finding{p, fmt.Sprintf(f, a...)}) }
	p := r.Sc.prog
	ne := 0
	scope := "flow"
	instrumented := false
	if p.Flow != nil {
		ne = pg.EmitterCount(p.Flow.Emitters)
		instrumented = p.Flow.Instrument
	} else {
		ne = pg.EmitterCount(p.Par.Emitters)
		instrumented = p.Par.Instrument
		scope = "parallel"
	}
	if ne > 0 && len(r.Outs) > 1 && instrumented && inst == 0 {
		kind := ""
		if p.Flow != nil {
			kind = p.Flow.Emitters
		} else {
			kind = p.Par.Emitters
		}
		if kind == "prestack" {
			// every instance's own emitter sees exactly its own run; the shared ones see all runs
			done := func(em int) int {
				n := 0
				for _, e := range r.Emits {
					if e.Em == em && e.Scope == scope && e.Ev == "Done" {
						n++
					}
				}
				return n
			}
			for i := range r.Outs {
				if r.Outs[i] == nil {
					continue
				}
				if n := done(3 + i); n != 1 {
					add("C18", "the emitter passed only to instance %d received %d %s Done events, want exactly 1 (emitters combined with a shared stack must receive exactly the events they would receive alone)", i, n, scope)
				}
			}
			for em := 0; em < 3; em++ {
				if n := done(em); n != len(r.Outs) {
					add("C18", "shared emitter %d received %d %s Done events for %d runs", em, n, scope, len(r.Outs))
				}
			}
		}
	}
	if ne == 0 || len(r.Outs) > 1 {
		return out
	}
	seqOf := func(em int, sc string) []emitRec {
		var s []emitRec
		for _, e := range r.Emits {
			if e.Em == em && e.Scope == sc {
				s = append(s, e)
			}
		}
		return s
	}
	render := func(em int) string {
		var b strings.Builder
		for _, e := range r.Emits {
			if e.Em == em && e.Scope != "sched" {
				fmt.Fprintf(&b, "%s.%s(%v);", e.Scope, e.Ev, e.Arg)
			}
		}
		return b.String()
	}
	emKind := ""
	if p.Flow != nil {
		emKind = p.Flow.Emitters
	} else {
		emKind = p.Par.Emitters
	}
	groups, prim := pg.EmitterGroups(emKind)
	for _, g := range groups {
		for _, em := range g[1:] {
			if render(em) != render(g[0]) {
				add("C18", "emitter %d received a different event sequence than emitter %d, which is registered in the same way:\n   %d: %s\n   %d: %s", em, g[0], g[0], render(g[0]), em, render(em))
			}
		}
	}
	if instrumented {
		ds := seqOf(prim, scope)
		nS, nE, nD := 0, 0, 0
		for i, e := range ds {
			switch e.Ev {
			case "Success":
				nS++
			case "Error":
				nE++
				if e.Arg != any(o.Err) {
					add("C18", "%s Error event carries %v, the directive returned %v", scope, e.Arg, o.Err)
				}
			case "Done":
				nD++
				if i != len(ds)-1 {
					add("C18", "%s Done is not the last directive-level event", scope)
				}
			}
		}
		if nS+nE != 1 || nD != 1 || (nS == 1) != (o.Err == nil) {
			add("C18", "%s-level events Success=%d Error=%d Done=%d for a directive that returned %v; want exactly one of Success/Error matching the result, then one Done", scope, nS, nE, nD, o.Err)
		}
	}
	// per task
	type tinfo struct {
		name     string
		ids      []string
		fallback bool
	}
	var ts []tinfo
	if p.Flow != nil {
		for i, t := range p.Flow.Tasks {
			if t.Instrument {
				ts = append(ts, tinfo{pg.TaskID(r.Sc.Prog, i), []string{pg.TaskID(r.Sc.Prog, i)}, t.Fallback})
			}
		}
	} else {
		for k, it := range p.Par.Items {
			if it.Kind == "task" && it.Instrument {
				ts = append(ts, tinfo{pg.ItemID(r.Sc.Prog, k), []string{pg.ItemID(r.Sc.Prog, k)}, false})
			}
		}
	}
	for _, t := range ts {
		evs := seqOf(prim, "task:"+t.name)
		cnt := map[string]int{}
		for _, e := range evs {
			cnt[e.Ev]++
		}
		inv := byID[t.ids[0]]
		outcome := cnt["TaskSuccess"] + cnt["TaskError"] + cnt["TaskErrorRecovered"] + cnt["TaskPanic"] + cnt["TaskPanicRecovered"]
		if len(inv) == 1 {
			c := inv[0]
			want := "TaskSuccess"
			switch c.Kind {
			case probe.Fail:
				want = "TaskError"
				if t.fallback {
					want = "TaskErrorRecovered"
				}
			case probe.Panic:
				want = "TaskPanic"
				if t.fallback {
					want = "TaskPanicRecovered"
				}
			case probe.Goexit, probe.Gate:
				want = ""
			}
			if want != "" {
				if outcome != 1 || cnt[want] != 1 {
					add("C18", "task %s was invoked once with outcome %q but received outcome events %v (want exactly one %s)", t.name, c.Kind, cnt, want)
				}
				if cnt["TaskDone"] != 1 {
					add("C18", "task %s was invoked once but received %d TaskDone events", t.name, cnt["TaskDone"])
				}
				for _, e := range evs {
					if e.Ev == "TaskError" || e.Ev == "TaskErrorRecovered" {
						if e.Arg != any(r.Errs[c.ID]) {
							add("C18", "task %s: %s carries %v, the task returned %v", t.name, e.Ev, e.Arg, r.Errs[c.ID])
						}
					}
					if (e.Ev == "TaskPanic" || e.Ev == "TaskPanicRecovered") && r.Sc.PanicKind != "runtime" {
						if !panicValueMatches(e.Arg, r.Panics[c.ID]) {
							add("C18", "task %s: %s carries %v, the task panicked with %v", t.name, e.Ev, e.Arg, r.Panics[c.ID])
						}
					}
				}
			}
			if cnt["TaskSkipped"] != 0 && o.Err == nil {
				add("C18", "task %s was invoked but also received TaskSkipped", t.name)
			}
		}
		if len(inv) == 0 {
			predPanicked := false
			if p.Flow != nil {
				for i := range p.Flow.Tasks {
					if pg.TaskID(r.Sc.Prog, i) == t.name && r.Sc.Dec[pg.PredID(r.Sc.Prog, i)] == probe.Panic {
						predPanicked = true
					}
				}
			}
			if outcome != 0 && !predPanicked {
				add("C18", "task %s was never invoked but received outcome events %v", t.name, cnt)
			}
			if o.Err == nil && cnt["TaskSkipped"] != 1 && !predPanicked {
				add("C18", "the directive returned nil, task %s was not invoked, but it received %d TaskSkipped events (want 1)", t.name, cnt["TaskSkipped"])
			}
		}
	}
	return out
}

// Visible renders the observable trace of an execution.
func Visible(r *Run, ex *vs.Exec) string {
	var b strings.Builder
	for _, e := range ex.Log {
		b.WriteString(e.String())
		b.WriteByte(';')
	}
	for i, o := range r.Outs {
		if o != nil {
			fmt.Fprintf(&b, "out%d=%v/%v;", i, o.Err != nil, o.R)
		}
	}
	b.WriteString(ex.Term.String())
	return b.String()
}

// Outcome is the schedule-independent result of an execution (what the
// caller can observe): used for the "outcome does not depend on the schedule,
// listing order or concurrency limit" clause of C02 and for C20.
func Outcome(r *Run) string {
	var b strings.Builder
	for i, o := range r.Outs {
		if o == nil {
			fmt.Fprintf(&b, "inst%d:none;", i)
			continue
		}
		e := "nil"
		if o.Err != nil {
			var pe *cff.PanicError
			if errors.As(o.Err, &pe) {
				e = fmt.Sprintf("PanicError(%v)", pe.Value)
			} else {
				e = o.Err.Error()
			}
		}
		fmt.Fprintf(&b, "inst%d:err=%s R=%v;", i, e, o.R)
	}
	return b.String()
}
