# shared shell helpers for /verif checks
export GOFLAGS=-mod=mod GOPROXY=off GOSUMDB=off GOTOOLCHAIN=local
export GOCACHE="${GOCACHE:-$HOME/.cache/go-build}"
export VERIF_DIR="${VERIF_DIR:-/verif}"
export VERIF_REPO="${VERIF_REPO:-/repo}"

tool_error() { echo "TOOL-ERROR $*"; return 2; }

# ensure_rewriter: builds the source rewriter if missing or stale
ensure_rewriter() {
  local bin="$VERIF_DIR/build/bin/rewrite"
  if [ ! -x "$bin" ] || [ "$VERIF_DIR/engine/rewrite/main.go" -nt "$bin" ]; then
    mkdir -p "$VERIF_DIR/build/bin"
    (cd "$VERIF_DIR/engine/rewrite" && go build -o "$bin" .) || { tool_error "building rewriter failed"; return 2; }
  fi
}

# harness_modfile <dir>: go.mod/go.sum pair that points the harness at $VERIF_REPO
harness_modfile() {
  local b="$1"
  sed "s#=> /repo#=> $VERIF_REPO#" "$VERIF_DIR/harness/go.mod" > "$b/harness.mod"
  cp "$VERIF_DIR/harness/go.sum" "$b/harness.sum"
}

# build_sched_harness <builddir> <cmd>: rewrite scheduler from the working tree, build cmd with the overlay
build_sched_harness() {
  local b="$1" cmd="$2"
  ensure_rewriter || return 2
  rm -rf "$b/rw"; mkdir -p "$b/rw" "$b/bin"
  "$VERIF_DIR/build/bin/rewrite" -repo "$VERIF_REPO" -out "$b/rw" -vs "$VERIF_DIR/engine/vs" \
      -pkgs ./scheduler -overlay "$b/overlay.json" > "$b/rewrite.log" 2>&1 || { cat "$b/rewrite.log"; tool_error "rewriter failed"; return 2; }
  harness_modfile "$b"
  local race=()
  if [ -n "${VERIF_RACE:-}" ]; then
    # the detector watches the repository's scheduler only (DESIGN.md section 3.6)
    race=(-race -gcflags=go.uber.org/cff/zzverif/vs=-race=false "-gcflags=verif/harness/...=-race=false")
  fi
  (cd "$VERIF_DIR/harness" && go build "${race[@]}" -modfile="$b/harness.mod" -overlay "$b/overlay.json" -o "$b/bin/$cmd${VERIF_RACE:+-race}" "./cmd/$cmd") > "$b/build.log" 2>&1 \
      || { cat "$b/build.log"; tool_error "building $cmd against the rewritten scheduler failed"; return 2; }
}

# build_litmus <builddir>: native + rewritten litmus suite in one binary
build_litmus() {
  local b="$1"
  ensure_rewriter || return 2
  rm -rf "$b/rwl"; mkdir -p "$b/rwl" "$b/bin"
  "$VERIF_DIR/build/bin/rewrite" -repo "$VERIF_REPO" -dir "$VERIF_DIR/harness" -out "$b/rwl" -vs "$VERIF_DIR/engine/vs" \
      -pkgs ./litmus -pkgname litmusvs -mapto "$VERIF_DIR/harness/litmusvs" -overlay "$b/overlay-litmus.json" > "$b/rewrite-litmus.log" 2>&1 \
      || { cat "$b/rewrite-litmus.log"; tool_error "rewriter failed on litmus suite"; return 2; }
  harness_modfile "$b"
  (cd "$VERIF_DIR/harness" && go build -modfile="$b/harness.mod" -overlay "$b/overlay-litmus.json" -o "$b/bin/litmusmc" ./cmd/litmusmc) > "$b/build-litmus.log" 2>&1 \
      || { cat "$b/build-litmus.log"; tool_error "building litmusmc failed"; return 2; }
}

# build_cff <builddir>: the cff tool from the working tree
build_cff() {
  local b="$1"
  mkdir -p "$b/bin"
  (cd "$VERIF_REPO" && go build -o "$b/bin/cff" ./cmd/cff) > "$b/build-cff.log" 2>&1 \
      || { cat "$b/build-cff.log"; tool_error "building cff from $VERIF_REPO failed"; return 2; }
}

# build_gen_harness <builddir>: rewritten scheduler overlay + genmc orchestrator + cff tool
build_gen_harness() {
  local b="$1"
  ensure_rewriter || return 2
  rm -rf "$b/rw"; mkdir -p "$b/rw" "$b/bin"
  # the scheduler and the root package (its adapters sit between generated code and the scheduler);
  # the root package's AtomicBool stays native: an invisible step of the thread that performs it
  "$VERIF_DIR/build/bin/rewrite" -repo "$VERIF_REPO" -out "$b/rw" -vs "$VERIF_DIR/engine/vs" \
      -pkgs ./scheduler,. -native-atomic -overlay "$b/overlay.json" > "$b/rewrite.log" 2>&1 || { cat "$b/rewrite.log"; tool_error "rewriter failed"; return 2; }
  harness_modfile "$b"
  (cd "$VERIF_DIR/harness" && go build -modfile="$b/harness.mod" -overlay "$b/overlay.json" -o "$b/bin/genmc" ./cmd/genmc) > "$b/build.log" 2>&1 \
      || { cat "$b/build.log"; tool_error "building genmc failed"; return 2; }
  build_cff "$b" || return 2
}

# build_racelit <builddir>: race litmus suite (native + rewritten) in one -race binary
build_racelit() {
  local b="$1"
  ensure_rewriter || return 2
  rm -rf "$b/rwr"; mkdir -p "$b/rwr" "$b/bin"
  "$VERIF_DIR/build/bin/rewrite" -repo "$VERIF_REPO" -dir "$VERIF_DIR/harness" -out "$b/rwr" -vs "$VERIF_DIR/engine/vs" \
      -pkgs ./racelit -pkgname racelitvs -mapto "$VERIF_DIR/harness/racelitvs" -overlay "$b/overlay-racelit.json" > "$b/rewrite-racelit.log" 2>&1 \
      || { cat "$b/rewrite-racelit.log"; tool_error "rewriter failed on race litmus suite"; return 2; }
  harness_modfile "$b"
  (cd "$VERIF_DIR/harness" && go build -race -gcflags=go.uber.org/cff/zzverif/vs=-race=false -gcflags='verif/harness/...=-race=false' \
      -gcflags=verif/harness/racelit=-race=true -gcflags=verif/harness/racelitvs=-race=true \
      -modfile="$b/harness.mod" -overlay "$b/overlay-racelit.json" -o "$b/bin/racelitmc" ./cmd/racelitmc) > "$b/build-racelit.log" 2>&1 \
      || { cat "$b/build-racelit.log"; tool_error "building racelitmc failed"; return 2; }
}

# run_racelit <builddir>
run_racelit() {
  local b="$1"
  rm -rf "$b/racelit-log"; mkdir -p "$b/racelit-log"
  VERIF_RACE_LOG="$b/racelit-log/race" GORACE="log_path=$b/racelit-log/race atexit_sleep_ms=0 halt_on_error=0 exitcode=0" "$b/bin/racelitmc"
}
