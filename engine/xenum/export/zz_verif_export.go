package internal

import "io"

// VerifWriteInvertedCffTag exposes writeInvertedCffTag to the verification
// driver. This file exists only in a `go build -overlay`; it is never part of
// the repository.
func VerifWriteInvertedCffTag(w io.Writer, bs []byte) error { return writeInvertedCffTag(w, bs) }
