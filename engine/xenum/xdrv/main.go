// Command xdrv is the engine-X driver that runs inside the cff module (it is
// injected as go.uber.org/cff/zzverif/xdrv through `go build -overlay`, so it
// may import cff's internal package). It enumerates build-constraint headers
// exhaustively within a bound, passes each through the real
// writeInvertedCffTag and decides with go/build whether, for every assignment
// of the tags, the output is selected exactly when the input is selected with
// the cff tag flipped (property C16).
package main

import (
	"bytes"
	"encoding/json"
	"flag"
	"fmt"
	"go/build"
	"go/build/constraint"
	"io"
	"os"
	"sort"
	"strings"

	"go.uber.org/cff/internal"
)

var tags = []string{"cff", "a", "b"}

type violation struct {
	Header string `json:"header"`
	Output string `json:"output"`
	Sigma  string `json:"sigma"`
	Msg    string `json:"msg"`
}

type result struct {
	Headers    int            `json:"headers"`
	Evals      int            `json:"evaluations"`
	Distinct   int            `json:"distinct_outputs"`
	ByForm     map[string]int `json:"by_form"`
	Violations []violation    `json:"violations"`
	Samples    []violation    `json:"samples"`
	Selected   map[string]int `json:"selected_counts"` // how many (header,sigma) pairs are selected / not selected (non-vacuity)
	CffHeaders []string       `json:"cff_headers,omitempty"`
}

// selected reports whether a file with this header is selected under sigma.
func selected(header string, sigma map[string]bool) (bool, error) {
	src := header + "package p\n"
	ctx := build.Default
	ctx.GOOS, ctx.GOARCH = "linux", "amd64"
	ctx.CgoEnabled = false
	ctx.BuildTags = nil
	ctx.ToolTags = nil
	ctx.ReleaseTags = nil
	for t, v := range sigma {
		if v {
			ctx.BuildTags = append(ctx.BuildTags, t)
		}
	}
	sort.Strings(ctx.BuildTags)
	ctx.OpenFile = func(path string) (io.ReadCloser, error) {
		return io.NopCloser(strings.NewReader(src)), nil
	}
	return ctx.MatchFile("/x", "f.go")
}

func sigmas() []map[string]bool {
	var out []map[string]bool
	for m := 0; m < 1<<len(tags); m++ {
		s := map[string]bool{}
		for i, t := range tags {
			s[t] = m&(1<<i) != 0
		}
		out = append(out, s)
	}
	return out
}

func sigStr(s map[string]bool) string {
	var p []string
	for _, t := range tags {
		if s[t] {
			p = append(p, t)
		} else {
			p = append(p, "!"+t)
		}
	}
	return strings.Join(p, ",")
}

// exprs returns all expression strings of depth <= d over the tags.
func exprs(d int) []string {
	level := append([]string{}, tags...)
	all := append([]string{}, level...)
	seen := map[string]bool{}
	for _, e := range all {
		seen[e] = true
	}
	for k := 1; k <= d; k++ {
		var next []string
		add := func(e string) {
			if !seen[e] {
				seen[e] = true
				next = append(next, e)
			}
		}
		prev := append([]string{}, all...)
		for _, x := range prev {
			if strings.HasPrefix(x, "!") && !strings.HasPrefix(x, "!(") {
				add("!(" + x + ")")
			} else if strings.ContainsAny(x, "&|") {
				add("!(" + x + ")")
			} else {
				add("!" + x)
			}
		}
		for _, x := range prev {
			for _, y := range prev {
				for _, op := range []string{"&&", "||"} {
					px, py := x, y
					if strings.ContainsAny(px, "&|") {
						px = "(" + px + ")"
					}
					if strings.ContainsAny(py, "&|") {
						py = "(" + py + ")"
					}
					add(px + " " + op + " " + py)
				}
			}
		}
		all = append(all, next...)
	}
	return all
}

// plusLines returns single "// +build" lines over literal terms: groups
// (space = OR) of comma-joined (AND) terms.
func plusLines(maxGroups, maxTerms int) []string {
	var terms []string
	for _, t := range tags {
		terms = append(terms, t, "!"+t)
	}
	var groups []string
	var rec func(cur []string, n int)
	rec = func(cur []string, n int) {
		if len(cur) > 0 {
			groups = append(groups, strings.Join(cur, ","))
		}
		if len(cur) == n {
			return
		}
		for _, t := range terms {
			rec(append(append([]string{}, cur...), t), n)
		}
	}
	rec(nil, maxTerms)
	var lines []string
	var rec2 func(cur []string)
	rec2 = func(cur []string) {
		if len(cur) > 0 {
			lines = append(lines, "// +build "+strings.Join(cur, " "))
		}
		if len(cur) == maxGroups {
			return
		}
		for _, g := range groups {
			rec2(append(append([]string{}, cur...), g))
		}
	}
	rec2(nil)
	return lines
}

func main() {
	depth := flag.Int("depth", 2, "expression depth")
	mixed := flag.Bool("mixed", false, "also combine every depth-<depth> expression with every depth-1 expression (thorough tier)")
	cffOnly := flag.Bool("list-cff", false, "also list headers that select the file under {cff} only (for the end-to-end part)")
	flag.Parse()
	res := &result{ByForm: map[string]int{}, Selected: map[string]int{}}
	sg := sigmas()
	outs := map[string]bool{}
	check := func(form, header string) {
		res.Headers++
		res.ByForm[form]++
		var buf bytes.Buffer
		if err := internal.VerifWriteInvertedCffTag(&buf, []byte(header)); err != nil {
			res.Violations = append(res.Violations, violation{Header: header, Msg: "writeInvertedCffTag failed: " + err.Error()})
			return
		}
		out := buf.String()
		outs[out] = true
		// non-constraint lines are preserved verbatim, in order
		keep := func(s string) []string {
			var l []string
			for _, x := range strings.Split(s, "\n") {
				if !constraint.IsGoBuild(x) && !constraint.IsPlusBuild(x) {
					l = append(l, x)
				}
			}
			return l
		}
		if a, b := keep(header), keep(out); strings.Join(a, "\n") != strings.Join(b, "\n") {
			res.Violations = append(res.Violations, violation{Header: header, Output: out, Msg: "lines that are not build constraints were changed"})
		}
		bad := false
		for _, s := range sg {
			res.Evals++
			flipped := map[string]bool{}
			for k, v := range s {
				flipped[k] = v
			}
			flipped["cff"] = !s["cff"]
			want, err1 := selected(header, flipped)
			got, err2 := selected(out, s)
			if err1 != nil {
				// the input itself is not a valid header for go/build: out of the property's scope
				continue
			}
			if want {
				res.Selected["selected"]++
			} else {
				res.Selected["not-selected"]++
			}
			if err2 != nil {
				if !bad {
					res.Violations = append(res.Violations, violation{Header: header, Output: out, Sigma: sigStr(s), Msg: "go/build rejects the generated header: " + err2.Error()})
				}
				bad = true
				continue
			}
			if got != want && !bad {
				bad = true
				res.Violations = append(res.Violations, violation{Header: header, Output: out, Sigma: sigStr(s),
					Msg: fmt.Sprintf("under tags {%s} the generated file is selected=%v but the source file with cff flipped is selected=%v", sigStr(s), got, want)})
			}
		}
		if len(res.Samples) < 6 && res.Headers%397 == 1 {
			res.Samples = append(res.Samples, violation{Header: header, Output: out})
		}
		if *cffOnly {
			if ok, err := selected(header, map[string]bool{"cff": true}); err == nil && ok {
				res.CffHeaders = append(res.CffHeaders, header)
			}
		}
	}
	es := exprs(*depth)
	for _, e := range es {
		check("go:build", "//go:build "+e+"\n\n")
	}
	if *mixed {
		small := exprs(1)
		par := func(x string) string {
			if strings.ContainsAny(x, "&|") {
				return "(" + x + ")"
			}
			return x
		}
		for _, x := range es {
			for _, y := range small {
				for _, op := range []string{"&&", "||"} {
					check("go:build/mixed", "//go:build "+par(x)+" "+op+" "+par(y)+"\n\n")
					check("go:build/mixed", "//go:build !("+par(y)+" "+op+" "+par(x)+")\n\n")
				}
			}
		}
	}
	// the constraint directly above the package clause or its doc comment (no blank line in between)
	for _, e := range exprs(1) {
		check("go:build/no-gap", "//go:build "+e+"\n")
		check("go:build/doc-attached", "//go:build "+e+"\n// Package p is documented right below its constraint.\n")
		check("go:build/license+doc-attached", "// Copyright\n\n//go:build "+e+"\n// Package p is documented right below its constraint.\n")
	}
	// both syntaxes, as gofmt keeps them
	for _, e := range exprs(1) {
		x, err := constraint.Parse("//go:build " + e)
		if err != nil {
			continue
		}
		pl, err := constraint.PlusBuildLines(x)
		if err != nil {
			continue
		}
		check("both", "//go:build "+e+"\n"+strings.Join(pl, "\n")+"\n\n")
		check("both+license", "// Copyright (c) someone\n// +build is mentioned in this comment line only\n\n//go:build "+e+"\n"+strings.Join(pl, "\n")+"\n\n// Package p has a doc comment.\n")
		check("plus-from-expr", strings.Join(pl, "\n")+"\n\n")
	}
	one := plusLines(2, 2)
	for _, l := range one {
		check("+build/1line", l+"\n\n")
	}
	short := plusLines(1, 2)
	for _, l1 := range short {
		for _, l2 := range short {
			check("+build/2lines", l1+"\n"+l2+"\n\n")
		}
	}
	for _, l1 := range plusLines(1, 1) {
		for _, l2 := range plusLines(1, 1) {
			for _, l3 := range plusLines(1, 1) {
				check("+build/3lines", l1+"\n"+l2+"\n"+l3+"\n\n")
			}
			check("+build/split", "// header comment\n\n"+l1+"\n\n"+l2+"\n\n")
		}
	}
	res.Distinct = len(outs)
	b, _ := json.Marshal(res)
	os.Stdout.Write(b)
}
