// Command rewrite mechanically replaces Go's concurrency primitives in selected
// packages of the cff repository by calls into the verification shim
// (go.uber.org/cff/zzverif/vs) and writes a `go build -overlay` file that
// substitutes the rewritten files and injects the shim package. The repository
// itself is never modified.
//
// Anything it does not know how to rewrite is reported as
// "UNSUPPORTED <construct> at file:line" with exit status 2 (a tool error,
// never a property violation).
package main

import (
	"bytes"
	"encoding/json"
	"flag"
	"fmt"
	"go/ast"
	"go/format"
	"go/token"
	"go/types"
	"os"
	"path/filepath"
	"sort"
	"strings"

	"golang.org/x/tools/go/ast/astutil"
	"golang.org/x/tools/go/packages"
)

const vsPath = "go.uber.org/cff/zzverif/vs"
const vsName = "zzvs"

type rewriter struct {
	fset   *token.FileSet
	info   *types.Info
	pkg    *types.Package
	n      int
	counts map[string]int
	errs   []string

	recv2    map[*ast.UnaryExpr]bool
	chanCall map[*ast.CallExpr]string // close/len/cap on channels, make(chan)
	ctxCall  map[*ast.CallExpr]string // Done/Err on context.Context
	rangeCh  map[*ast.RangeStmt]bool
	rangeMap map[*ast.RangeStmt]bool
	mapRange bool
	onlyMap  bool // rewrite nothing but range-over-map (generator packages: they run outside any execution)
	changed  bool
}

func (r *rewriter) tmp() *ast.Ident {
	r.n++
	return ast.NewIdent(fmt.Sprintf("_zz%d", r.n))
}

func (r *rewriter) unsupported(what string, n ast.Node) {
	r.errs = append(r.errs, fmt.Sprintf("UNSUPPORTED %s at %s", what, r.fset.Position(n.Pos())))
}

func vsSel(name string) ast.Expr {
	return &ast.SelectorExpr{X: ast.NewIdent(vsName), Sel: ast.NewIdent(name)}
}

func call(fun ast.Expr, args ...ast.Expr) *ast.CallExpr {
	return &ast.CallExpr{Fun: fun, Args: args}
}

func method(x ast.Expr, name string, args ...ast.Expr) *ast.CallExpr {
	return call(&ast.SelectorExpr{X: x, Sel: ast.NewIdent(name)}, args...)
}

func isChan(t types.Type) bool {
	if t == nil {
		return false
	}
	_, ok := t.Underlying().(*types.Chan)
	return ok
}

func isMap(t types.Type) bool {
	if t == nil {
		return false
	}
	_, ok := t.Underlying().(*types.Map)
	return ok
}

func isContext(t types.Type) bool {
	n, ok := t.(*types.Named)
	if !ok {
		return false
	}
	o := n.Obj()
	return o.Pkg() != nil && o.Pkg().Path() == "context" && o.Name() == "Context"
}

func (r *rewriter) builtin(e ast.Expr) string {
	id, ok := e.(*ast.Ident)
	if !ok {
		return ""
	}
	if b, ok := r.info.Uses[id].(*types.Builtin); ok {
		return b.Name()
	}
	return ""
}

// pkgObj returns (package path, object name) if e is a qualified identifier.
func (r *rewriter) pkgObj(e ast.Expr) (string, string, bool) {
	sel, ok := e.(*ast.SelectorExpr)
	if !ok {
		return "", "", false
	}
	id, ok := sel.X.(*ast.Ident)
	if !ok {
		return "", "", false
	}
	if _, ok := r.info.Uses[id].(*types.PkgName); !ok {
		return "", "", false
	}
	o := r.info.Uses[sel.Sel]
	if o == nil || o.Pkg() == nil {
		return "", "", false
	}
	return o.Pkg().Path(), o.Name(), true
}

var qualified = map[string]string{
	"time.NewTicker": "NewTicker", "time.NewTimer": "NewTimer", "time.After": "After", "time.Tick": "Tick", "time.Sleep": "Sleep",
	"time.Ticker": "Ticker", "time.Timer": "Timer",
	"sync.Mutex": "Mutex", "sync.RWMutex": "RWMutex", "sync.WaitGroup": "WaitGroup", "sync.Once": "Once",
	"sync/atomic.Bool": "AtomicBool", "sync/atomic.Int32": "AtomicInt32", "sync/atomic.Int64": "AtomicInt64",
	"sync/atomic.Uint32": "AtomicUint32", "sync/atomic.Uint64": "AtomicUint64", "sync/atomic.Value": "AtomicValue",
	"sync/atomic.Pointer": "AtomicPointer",
	"runtime.GOMAXPROCS":  "GOMAXPROCS",
}

func init() {
	for _, ty := range []string{"Int32", "Int64", "Uint32", "Uint64", "Uintptr"} {
		qualified["sync/atomic.Load"+ty] = "AtomicLoad"
		qualified["sync/atomic.Store"+ty] = "AtomicStore"
		qualified["sync/atomic.Add"+ty] = "AtomicAdd"
		qualified["sync/atomic.Swap"+ty] = "AtomicSwap"
		qualified["sync/atomic.CompareAndSwap"+ty] = "AtomicCAS"
	}
}

var unsupportedQualified = map[string]bool{
	"sync.Cond": true, "sync.NewCond": true, "sync.Map": true, "time.AfterFunc": true,
	"context.WithCancel": true, "context.WithTimeout": true, "context.WithDeadline": true, "context.WithCancelCause": true,
	"context.AfterFunc": true, "sync.OnceFunc": true,
}

func (r *rewriter) pre(c *astutil.Cursor) bool {
	if r.onlyMap {
		if rs, ok := c.Node().(*ast.RangeStmt); ok && isMap(r.info.TypeOf(rs.X)) {
			r.rangeMap[rs] = true
		}
		return true
	}
	switch n := c.Node().(type) {
	case *ast.AssignStmt:
		if len(n.Lhs) == 2 && len(n.Rhs) == 1 {
			if u, ok := n.Rhs[0].(*ast.UnaryExpr); ok && u.Op == token.ARROW {
				r.recv2[u] = true
			}
		}
	case *ast.ValueSpec:
		if len(n.Names) == 2 && len(n.Values) == 1 {
			if u, ok := n.Values[0].(*ast.UnaryExpr); ok && u.Op == token.ARROW {
				r.recv2[u] = true
			}
		}
	case *ast.CallExpr:
		switch b := r.builtin(n.Fun); b {
		case "close":
			r.chanCall[n] = "Close"
		case "len", "cap":
			if len(n.Args) == 1 && isChan(r.info.TypeOf(n.Args[0])) {
				r.chanCall[n] = map[string]string{"len": "Len", "cap": "Cap"}[b]
			}
		case "make":
			if isChan(r.info.TypeOf(n)) {
				if _, ok := n.Args[0].(*ast.ChanType); !ok {
					r.unsupported("make of a named channel type", n)
				}
				r.chanCall[n] = "make"
			}
		}
		if sel, ok := n.Fun.(*ast.SelectorExpr); ok && len(n.Args) == 0 {
			if t := r.info.TypeOf(sel.X); t != nil && isContext(t) {
				switch sel.Sel.Name {
				case "Done", "Err":
					r.ctxCall[n] = sel.Sel.Name
				}
			}
		}
	case *ast.RangeStmt:
		t := r.info.TypeOf(n.X)
		if isChan(t) {
			r.rangeCh[n] = true
		} else if r.mapRange && isMap(t) {
			r.rangeMap[n] = true
		}
	case *ast.SelectStmt:
		c.Replace(r.selectStmt(n))
		r.changed = true
		r.counts["select"]++
		return false
	}
	return true
}

func (r *rewriter) sub(n ast.Node) ast.Node {
	return astutil.Apply(n, r.pre, r.post)
}

func (r *rewriter) expr(e ast.Expr) ast.Expr {
	if e == nil {
		return nil
	}
	return r.sub(e).(ast.Expr)
}

func (r *rewriter) stmts(l []ast.Stmt) []ast.Stmt {
	b := &ast.BlockStmt{List: l}
	return r.sub(b).(*ast.BlockStmt).List
}

// selectStmt turns a select into a switch over vs.Select.
func (r *rewriter) selectStmt(s *ast.SelectStmt) ast.Stmt {
	blk := &ast.BlockStmt{}
	var armExprs []ast.Expr
	sw := &ast.SwitchStmt{Body: &ast.BlockStmt{}}
	hasDefault := false
	idx := 0
	for _, cl := range s.Body.List {
		cc := cl.(*ast.CommClause)
		if cc.Comm == nil {
			hasDefault = true
			sw.Body.List = append(sw.Body.List, &ast.CaseClause{
				List: []ast.Expr{&ast.UnaryExpr{Op: token.SUB, X: &ast.BasicLit{Kind: token.INT, Value: "1"}}},
				Body: r.stmts(cc.Body),
			})
			continue
		}
		t := r.tmp()
		var pre []ast.Stmt
		switch cm := cc.Comm.(type) {
		case *ast.SendStmt:
			blk.List = append(blk.List, &ast.AssignStmt{Lhs: []ast.Expr{t}, Tok: token.DEFINE,
				Rhs: []ast.Expr{call(vsSel("SendArm"), r.expr(cm.Chan), r.expr(cm.Value))}})
		case *ast.ExprStmt:
			u, ok := cm.X.(*ast.UnaryExpr)
			if !ok || u.Op != token.ARROW {
				r.unsupported("select receive clause", cm)
				continue
			}
			blk.List = append(blk.List, &ast.AssignStmt{Lhs: []ast.Expr{t}, Tok: token.DEFINE,
				Rhs: []ast.Expr{call(vsSel("RecvArm"), r.expr(u.X))}})
		case *ast.AssignStmt:
			u, ok := cm.Rhs[0].(*ast.UnaryExpr)
			if !ok || u.Op != token.ARROW || len(cm.Rhs) != 1 {
				r.unsupported("select receive clause", cm)
				continue
			}
			blk.List = append(blk.List, &ast.AssignStmt{Lhs: []ast.Expr{t}, Tok: token.DEFINE,
				Rhs: []ast.Expr{call(vsSel("RecvArm"), r.expr(u.X))}})
			rhs := []ast.Expr{&ast.SelectorExpr{X: t, Sel: ast.NewIdent("V")}}
			if len(cm.Lhs) == 2 {
				rhs = append(rhs, &ast.SelectorExpr{X: t, Sel: ast.NewIdent("OK")})
			}
			var lhs []ast.Expr
			for _, l := range cm.Lhs {
				lhs = append(lhs, r.expr(l))
			}
			pre = append(pre, &ast.AssignStmt{Lhs: lhs, Tok: cm.Tok, Rhs: rhs})
		default:
			r.unsupported("select clause", cc)
			continue
		}
		armExprs = append(armExprs, method(t, "Arm"))
		sw.Body.List = append(sw.Body.List, &ast.CaseClause{
			List: []ast.Expr{&ast.BasicLit{Kind: token.INT, Value: fmt.Sprint(idx)}},
			Body: append(pre, r.stmts(cc.Body)...),
		})
		idx++
	}
	hd := "false"
	if hasDefault {
		hd = "true"
	}
	sw.Tag = call(vsSel("Select"), append([]ast.Expr{ast.NewIdent(hd)}, armExprs...)...)
	sw.Body.List = append(sw.Body.List, &ast.CaseClause{
		Body: []ast.Stmt{&ast.ExprStmt{X: call(ast.NewIdent("panic"), &ast.BasicLit{Kind: token.STRING, Value: `"vs: unreachable select result"`})}},
	})
	blk.List = append(blk.List, sw)
	return blk
}

func chanElem(e ast.Expr) ast.Expr {
	// e is *zzvs.Chan[T] as produced for an ast.ChanType
	if st, ok := e.(*ast.StarExpr); ok {
		if ix, ok := st.X.(*ast.IndexExpr); ok {
			return ix.Index
		}
	}
	return nil
}

func (r *rewriter) post(c *astutil.Cursor) bool {
	if r.onlyMap {
		if rs, ok := c.Node().(*ast.RangeStmt); ok && r.rangeMap[rs] {
			c.Replace(r.rangeOverMap(rs))
			r.changed = true
			r.counts["range-map"]++
		}
		return true
	}
	switch n := c.Node().(type) {
	case *ast.ChanType:
		c.Replace(&ast.StarExpr{X: &ast.IndexExpr{X: vsSel("Chan"), Index: n.Value}})
		r.changed = true
		r.counts["chantype"]++
	case *ast.SendStmt:
		c.Replace(&ast.ExprStmt{X: method(n.Chan, "Send", n.Value)})
		r.changed = true
		r.counts["send"]++
	case *ast.UnaryExpr:
		if n.Op == token.ARROW {
			m := "Recv"
			if r.recv2[n] {
				m = "Recv2"
			}
			c.Replace(method(n.X, m))
			r.changed = true
			r.counts["recv"]++
		}
	case *ast.CallExpr:
		if k, ok := r.chanCall[n]; ok {
			r.changed = true
			if k == "make" {
				el := chanElem(n.Args[0])
				if el == nil {
					r.unsupported("make(chan) form", n)
					return true
				}
				size := ast.Expr(&ast.BasicLit{Kind: token.INT, Value: "0"})
				if len(n.Args) > 1 {
					size = n.Args[1]
				}
				c.Replace(call(&ast.IndexExpr{X: vsSel("NewChan"), Index: el}, size))
				r.counts["make"]++
			} else {
				c.Replace(method(n.Args[0], k))
				r.counts[strings.ToLower(k)]++
			}
			return true
		}
		if k, ok := r.ctxCall[n]; ok {
			r.changed = true
			x := n.Fun.(*ast.SelectorExpr).X
			if k == "Done" {
				c.Replace(call(vsSel("Done"), x))
			} else {
				c.Replace(call(vsSel("CtxErr"), x))
			}
			r.counts["ctx."+k]++
			return true
		}
	case *ast.SelectorExpr:
		if p, name, ok := r.pkgObj(n); ok {
			q := p + "." + name
			if to, ok := qualified[q]; ok {
				c.Replace(vsSel(to))
				r.changed = true
				r.counts[q]++
			} else if unsupportedQualified[q] {
				r.unsupported(q, n)
			}
		}
	case *ast.RangeStmt:
		if r.rangeCh[n] {
			c.Replace(r.rangeChan(n))
			r.changed = true
			r.counts["range-chan"]++
		} else if r.rangeMap[n] {
			c.Replace(r.rangeOverMap(n))
			r.changed = true
			r.counts["range-map"]++
		}
	case *ast.GoStmt:
		c.Replace(r.goStmt(n))
		r.changed = true
		r.counts["go"]++
	}
	return true
}

func blank(e ast.Expr) bool {
	id, ok := e.(*ast.Ident)
	return e == nil || (ok && id.Name == "_")
}

func (r *rewriter) rangeChan(n *ast.RangeStmt) ast.Stmt {
	ch := r.tmp()
	okv := r.tmp()
	f := &ast.ForStmt{
		Init: &ast.AssignStmt{Lhs: []ast.Expr{ch}, Tok: token.DEFINE, Rhs: []ast.Expr{n.X}},
		Body: &ast.BlockStmt{},
	}
	recv := method(ch, "Recv2")
	if blank(n.Key) {
		f.Body.List = append(f.Body.List, &ast.AssignStmt{Lhs: []ast.Expr{ast.NewIdent("_"), okv}, Tok: token.DEFINE, Rhs: []ast.Expr{recv}})
	} else if n.Tok == token.DEFINE {
		f.Body.List = append(f.Body.List, &ast.AssignStmt{Lhs: []ast.Expr{n.Key, okv}, Tok: token.DEFINE, Rhs: []ast.Expr{recv}})
	} else {
		f.Body.List = append(f.Body.List,
			&ast.DeclStmt{Decl: &ast.GenDecl{Tok: token.VAR, Specs: []ast.Spec{&ast.ValueSpec{Names: []*ast.Ident{okv}, Type: ast.NewIdent("bool")}}}},
			&ast.AssignStmt{Lhs: []ast.Expr{n.Key, okv}, Tok: token.ASSIGN, Rhs: []ast.Expr{recv}})
	}
	f.Body.List = append(f.Body.List, &ast.IfStmt{Cond: &ast.UnaryExpr{Op: token.NOT, X: okv}, Body: &ast.BlockStmt{List: []ast.Stmt{&ast.BranchStmt{Tok: token.BREAK}}}})
	f.Body.List = append(f.Body.List, n.Body.List...)
	return f
}

// rangeOverMap makes map iteration order a decision of the explorer:
// for k, v := range m  =>  for _, k := range zzvs.MapKeys(m) { v := m[k]; ... }
func (r *rewriter) rangeOverMap(n *ast.RangeStmt) ast.Stmt {
	if n.Tok != token.DEFINE && !(blank(n.Key) && blank(n.Value)) {
		r.unsupported("range over map with assignment", n)
		return n
	}
	m := r.tmp()
	k := n.Key
	if blank(k) {
		k = r.tmp()
	}
	body := &ast.BlockStmt{}
	if !blank(n.Value) {
		body.List = append(body.List, &ast.AssignStmt{Lhs: []ast.Expr{n.Value}, Tok: token.DEFINE, Rhs: []ast.Expr{&ast.IndexExpr{X: m, Index: k}}})
	}
	if blank(n.Key) {
		body.List = append(body.List, &ast.AssignStmt{Lhs: []ast.Expr{ast.NewIdent("_")}, Tok: token.ASSIGN, Rhs: []ast.Expr{k}})
	}
	// the original body keeps its own scope (it may redeclare key/value)
	body.List = append(body.List, &ast.BlockStmt{List: n.Body.List})
	inner := &ast.RangeStmt{Key: ast.NewIdent("_"), Value: k, Tok: token.DEFINE, X: call(vsSel("MapKeys"), m), Body: body}
	// The outer one-iteration loop keeps the statement a `for` (labels stay
	// valid for break; a labelled continue on it is not supported).
	return &ast.BlockStmt{List: []ast.Stmt{
		&ast.AssignStmt{Lhs: []ast.Expr{m}, Tok: token.DEFINE, Rhs: []ast.Expr{n.X}},
		inner,
	}}
}

func (r *rewriter) goStmt(n *ast.GoStmt) ast.Stmt {
	blk := &ast.BlockStmt{}
	c := n.Call
	fun := c.Fun
	if lit, ok := fun.(*ast.FuncLit); ok && len(c.Args) == 0 {
		return &ast.ExprStmt{X: call(vsSel("Go"), lit)}
	}
	bind := true
	switch f := fun.(type) {
	case *ast.Ident:
		if _, ok := r.info.Uses[f].(*types.Func); ok {
			bind = false
		}
		if _, ok := r.info.Uses[f].(*types.Builtin); ok {
			bind = false
		}
	case *ast.SelectorExpr:
		if _, _, ok := r.pkgObj(f); ok {
			bind = false
		}
	case *ast.FuncLit:
		bind = false
	case *ast.IndexExpr, *ast.IndexListExpr:
		bind = false
	}
	if bind {
		t := r.tmp()
		blk.List = append(blk.List, &ast.AssignStmt{Lhs: []ast.Expr{t}, Tok: token.DEFINE, Rhs: []ast.Expr{fun}})
		fun = t
	}
	inner := &ast.CallExpr{Fun: fun, Ellipsis: c.Ellipsis}
	for _, a := range c.Args {
		if tv, ok := r.info.Types[a]; ok && tv.Value != nil {
			inner.Args = append(inner.Args, a)
			continue
		}
		if id, ok := a.(*ast.Ident); ok && id.Name == "nil" {
			inner.Args = append(inner.Args, a)
			continue
		}
		t := r.tmp()
		blk.List = append(blk.List, &ast.AssignStmt{Lhs: []ast.Expr{t}, Tok: token.DEFINE, Rhs: []ast.Expr{a}})
		inner.Args = append(inner.Args, t)
	}
	blk.List = append(blk.List, &ast.ExprStmt{X: call(vsSel("Go"), &ast.FuncLit{
		Type: &ast.FuncType{Params: &ast.FieldList{}},
		Body: &ast.BlockStmt{List: []ast.Stmt{&ast.ExprStmt{X: inner}}},
	})})
	return blk
}

// directivesOnly keeps the //go: directive lines of a doc comment (//go:embed,
// //go:noinline, ...): dropping them would change the program.
func directivesOnly(cg *ast.CommentGroup) *ast.CommentGroup {
	if cg == nil {
		return nil
	}
	var keep []*ast.Comment
	for _, c := range cg.List {
		if strings.HasPrefix(c.Text, "//go:") {
			keep = append(keep, c)
		}
	}
	if len(keep) == 0 {
		return nil
	}
	return &ast.CommentGroup{List: keep}
}

func (r *rewriter) file(f *ast.File) ([]byte, bool) {
	r.changed = false
	r.recv2 = map[*ast.UnaryExpr]bool{}
	r.chanCall = map[*ast.CallExpr]string{}
	r.ctxCall = map[*ast.CallExpr]string{}
	r.rangeCh = map[*ast.RangeStmt]bool{}
	r.rangeMap = map[*ast.RangeStmt]bool{}
	// keep build constraints
	var header []string
	for _, cg := range f.Comments {
		if cg.Pos() > f.Package {
			break
		}
		for _, c := range cg.List {
			if strings.HasPrefix(c.Text, "//go:build") || strings.HasPrefix(c.Text, "// +build") {
				header = append(header, c.Text)
			}
		}
	}
	nf := astutil.Apply(f, r.pre, r.post).(*ast.File)
	if !r.changed {
		return nil, false
	}
	nf.Comments = nil
	nf.Doc = nil
	ast.Inspect(nf, func(n ast.Node) bool {
		switch d := n.(type) {
		case *ast.GenDecl:
			d.Doc = directivesOnly(d.Doc)
		case *ast.FuncDecl:
			d.Doc = directivesOnly(d.Doc)
		case *ast.Field:
			d.Doc, d.Comment = nil, nil
		case *ast.ValueSpec:
			d.Doc, d.Comment = nil, nil
		case *ast.TypeSpec:
			d.Doc, d.Comment = nil, nil
		case *ast.ImportSpec:
			d.Doc, d.Comment = nil, nil
		}
		return true
	})
	astutil.AddNamedImport(r.fset, nf, vsName, vsPath)
	for _, imp := range nf.Imports {
		p := strings.Trim(imp.Path.Value, `"`)
		if p == vsPath || p == "C" {
			continue
		}
		if imp.Name != nil && (imp.Name.Name == "_" || imp.Name.Name == ".") {
			continue
		}
		if !astutil.UsesImport(nf, p) {
			if imp.Name != nil {
				astutil.DeleteNamedImport(r.fset, nf, imp.Name.Name, p)
			} else {
				astutil.DeleteImport(r.fset, nf, p)
			}
		}
	}
	var buf bytes.Buffer
	for _, h := range header {
		buf.WriteString(h + "\n")
	}
	if len(header) > 0 {
		buf.WriteString("\n")
	}
	buf.WriteString("// Code rewritten by /verif/engine/rewrite for model checking. DO NOT EDIT.\n\n")
	if err := format.Node(&buf, r.fset, nf); err != nil {
		r.errs = append(r.errs, "format: "+err.Error())
		return nil, false
	}
	return buf.Bytes(), true
}

type overlay struct {
	Replace map[string]string
}

func main() {
	repo := flag.String("repo", "/repo", "cff repository root")
	dir := flag.String("dir", "", "directory to load packages from (default: repo)")
	out := flag.String("out", "", "directory for rewritten files")
	vsdir := flag.String("vs", "", "directory holding the vs shim sources")
	pkgs := flag.String("pkgs", "./scheduler", "comma-separated package patterns to rewrite")
	ovl := flag.String("overlay", "", "overlay JSON to write (merged if it exists and -merge)")
	merge := flag.Bool("merge", false, "merge into an existing overlay file")
	mapRange := flag.Bool("maprange", false, "also rewrite range-over-map into vs.MapKeys")
	onlyMap := flag.Bool("only-maprange", false, "rewrite nothing but range-over-map")
	nativeAtomic := flag.Bool("native-atomic", false, "leave sync/atomic alone (atomics stay invisible steps of the thread that performs them)")
	tags := flag.String("tags", "", "build tags for loading")
	pkgname := flag.String("pkgname", "", "rename the package clause of rewritten files (used with -mapto)")
	mapto := flag.String("mapto", "", "overlay the rewritten files into this (virtual) directory instead of over their sources; all files of the package are emitted")
	flag.Parse()
	if *dir == "" {
		*dir = *repo
	}
	if *nativeAtomic {
		for k := range qualified {
			if strings.HasPrefix(k, "sync/atomic.") {
				delete(qualified, k)
			}
		}
	}
	cfg := &packages.Config{
		Mode: packages.NeedName | packages.NeedFiles | packages.NeedCompiledGoFiles | packages.NeedSyntax | packages.NeedTypes | packages.NeedTypesInfo | packages.NeedImports | packages.NeedDeps,
		Dir:  *dir,
		Env:  append(os.Environ(), "GOFLAGS=-mod=mod", "GOPROXY=off", "GOSUMDB=off", "GOTOOLCHAIN=local"),
	}
	if *tags != "" {
		cfg.BuildFlags = []string{"-tags", *tags}
	}
	loaded, err := packages.Load(cfg, strings.Split(*pkgs, ",")...)
	if err != nil {
		fmt.Fprintln(os.Stderr, "TOOL-ERROR rewrite: load:", err)
		os.Exit(2)
	}
	ov := overlay{Replace: map[string]string{}}
	if *merge {
		if b, err := os.ReadFile(*ovl); err == nil {
			json.Unmarshal(b, &ov)
		}
	}
	total := map[string]int{}
	bad := false
	for _, p := range loaded {
		for _, e := range p.Errors {
			fmt.Fprintln(os.Stderr, "TOOL-ERROR rewrite: package error:", e)
			bad = true
		}
		if bad {
			continue
		}
		r := &rewriter{fset: p.Fset, info: p.TypesInfo, pkg: p.Types, counts: map[string]int{}, mapRange: *mapRange || *onlyMap, onlyMap: *onlyMap}
		for i, f := range p.Syntax {
			name := p.CompiledGoFiles[i]
			if strings.HasSuffix(name, "_test.go") {
				continue
			}
			if *pkgname != "" {
				f.Name.Name = *pkgname
			}
			src, changed := r.file(f)
			if !changed {
				if *mapto == "" {
					continue
				}
				var buf bytes.Buffer
				if err := format.Node(&buf, p.Fset, f); err != nil {
					fmt.Fprintln(os.Stderr, "TOOL-ERROR rewrite:", err)
					os.Exit(2)
				}
				src = buf.Bytes()
			}
			rel, err := filepath.Rel(*repo, name)
			if err != nil || strings.HasPrefix(rel, "..") {
				rel = strings.ReplaceAll(strings.TrimPrefix(name, "/"), "/", "_")
			}
			dst := filepath.Join(*out, rel)
			os.MkdirAll(filepath.Dir(dst), 0o755)
			if err := os.WriteFile(dst, src, 0o644); err != nil {
				fmt.Fprintln(os.Stderr, "TOOL-ERROR rewrite:", err)
				os.Exit(2)
			}
			if *mapto != "" {
				ov.Replace[filepath.Join(*mapto, filepath.Base(name))] = dst
			} else {
				ov.Replace[name] = dst
			}
		}
		for _, e := range r.errs {
			fmt.Fprintln(os.Stderr, "TOOL-ERROR rewrite:", e)
			bad = true
		}
		for k, v := range r.counts {
			total[k] += v
		}
	}
	if bad {
		os.Exit(2)
	}
	if *vsdir != "" {
		ents, _ := os.ReadDir(*vsdir)
		for _, e := range ents {
			if strings.HasSuffix(e.Name(), ".go") && !strings.HasSuffix(e.Name(), "_test.go") {
				ov.Replace[filepath.Join(*repo, "zzverif", "vs", e.Name())] = filepath.Join(*vsdir, e.Name())
			}
		}
	}
	if *ovl != "" {
		b, _ := json.MarshalIndent(ov, "", " ")
		if err := os.WriteFile(*ovl, b, 0o644); err != nil {
			fmt.Fprintln(os.Stderr, "TOOL-ERROR rewrite:", err)
			os.Exit(2)
		}
	}
	var keys []string
	for k := range total {
		keys = append(keys, k)
	}
	sort.Strings(keys)
	var parts []string
	for _, k := range keys {
		parts = append(parts, fmt.Sprintf("%s=%d", k, total[k]))
	}
	fmt.Println("rewrite:", strings.Join(parts, " "))
}
