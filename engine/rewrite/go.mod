module verif/rewrite

go 1.19

require golang.org/x/tools v0.20.0

require (
	golang.org/x/mod v0.17.0 // indirect
	golang.org/x/sync v0.7.0 // indirect
)
