//go:build race

package vs

import (
	"runtime"
	"unsafe"
)

// Race build (property C12, DESIGN.md §3.6): the Go race detector runs under
// the cooperative scheduler. Everything the shim itself does - its
// bookkeeping and the native hand-offs between thread goroutines - happens
// inside RaceDisable/RaceEnable regions, so the detector sees neither the
// shim's memory accesses nor the happens-before edges of the hand-offs.
// Instead each thread emits, on its own goroutine, the acquire/release
// operations Go's runtime performs for the primitive it just executed.

// RaceBuild reports whether the binary was built with -race.
const RaceBuild = true

func raceOff() { runtime.RaceDisable() }
func raceOn()  { runtime.RaceEnable() }

func raceAcquire(p *uint64)      { runtime.RaceAcquire(unsafe.Pointer(p)) }
func raceRelease(p *uint64)      { runtime.RaceRelease(unsafe.Pointer(p)) }
func raceReleaseMerge(p *uint64) { runtime.RaceReleaseMerge(unsafe.Pointer(p)) }

// RaceOff/RaceOn bracket harness code that runs on thread goroutines
// (hooks, recording emitters, scenario bodies): its bookkeeping is shared
// between goroutines under the cooperative scheduler's own ordering, which the
// race detector must not see and must not judge.
func RaceOff() { runtime.RaceDisable() }

// RaceOn ends a RaceOff region.
func RaceOn() { runtime.RaceEnable() }
