package vs

import (
	"context"
	"time"
)

type ctxKey struct{}

// Ctx is a cancellable context whose cancellation and observation are
// scheduling points. It implements context.Context so it can be handed to
// unmodified code (generated code, user functions).
type Ctx struct {
	parent   context.Context
	done     *Chan[struct{}]
	native   chan struct{}
	err      error
	children []*Ctx
	name     string
}

type liveKey struct{}

var liveParent = func() context.Context {
	c, _ := context.WithCancel(context.Background()) // never cancelled
	return context.WithValue(c, liveKey{}, true)
}()

// LiveParent is a standard-library cancellable context that is never
// cancelled. Harnesses derive their contexts from it instead of from
// context.Background(), so that the contexts handed to the code under test are
// what users typically have: a non-standard implementation (vs.Ctx) whose
// Value chain leads to a live cancellable ancestor. It is never done, so
// observing it is not a scheduling point.
func LiveParent() context.Context { return liveParent }

func isLive(ctx context.Context) bool { return ctx.Value(liveKey{}) != nil }

// WithCancel replaces context.WithCancel for harness-created contexts.
func WithCancel(parent context.Context, name string) (*Ctx, context.CancelFunc) {
	if parent == nil {
		parent = context.Background()
	}
	c := &Ctx{parent: parent, native: make(chan struct{}), name: name}
	c.done = NewChan[struct{}](0)
	c.done.core.obj.name = "ctx:" + name
	if p, ok := parent.Value(ctxKey{}).(*Ctx); ok && p != nil {
		if p.err != nil {
			c.markCancelled(p.err, p.done.core.closeVC)
		} else {
			p.children = append(p.children, c)
		}
	} else if parent.Done() != nil && !isLive(parent) {
		panic("vs.WithCancel: parent is a cancellable context that is not modelled")
	}
	return c, func() { c.cancel(context.Canceled) }
}

func (c *Ctx) markCancelled(err error, vc VC) {
	if c.err != nil {
		return
	}
	c.err = err
	close(c.native)
	c.done.core.closed = true
	c.done.core.closeVC = vc
	c.done.core.obj.vc = vc
	for _, ch := range c.children {
		ch.markCancelled(err, vc)
	}
}

func (c *Ctx) descendants(out []int) []int {
	for _, ch := range c.children {
		out = append(out, ch.done.core.obj.id)
		out = ch.descendants(out)
	}
	return out
}

func (c *Ctx) cancel(err error) {
	t := enter()
	if c.err != nil {
		// already cancelled: still an observation of the context
		t.do(&op{arms: []arm{{kind: aSimple, obj: c.done.core.obj, label: "cancel(noop)"}}})
		return
	}
	a := arm{kind: aSimple, obj: c.done.core.obj, write: true, label: "cancel"}
	a.apply = func() {
		Emit0(t, "ctx:"+c.name, "cancel")
		c.markCancelled(err, t.vc.clone())
	}
	a.extra = c.descendants(nil)
	t.do(&op{arms: []arm{a}})
}

// Emit0 logs an event on behalf of thread t from inside a transition.
func Emit0(t *thread, obj, label string) {
	s := S
	s.ex.Log = append(s.ex.Log, Event{Seq: len(s.ex.Log), Tid: t.id, Obj: obj, Label: label, VC: t.vc.clone(), Step: s.ex.Steps})
}

// Deadline implements context.Context.
func (c *Ctx) Deadline() (time.Time, bool) { return c.parent.Deadline() }

// Done implements context.Context for unmodified code. Rewritten code uses
// vs.Done(ctx) instead.
func (c *Ctx) Done() <-chan struct{} { return c.native }

// Err implements context.Context. Called natively it is not a scheduling
// point; rewritten code uses vs.CtxErr.
func (c *Ctx) Err() error { return c.err }

// Value implements context.Context.
func (c *Ctx) Value(k any) any {
	if _, ok := k.(ctxKey); ok {
		return c
	}
	return c.parent.Value(k)
}

func (c *Ctx) String() string { return "vs.Ctx(" + c.name + ")" }

func findCtx(ctx context.Context) *Ctx {
	if ctx == nil {
		return nil
	}
	c, _ := ctx.Value(ctxKey{}).(*Ctx)
	if c != nil && ctx.Done() == nil {
		// the Value chain leads to a modelled context but cancellation was detached on the way
		// (context.WithoutCancel or a wrapper of the same kind): this context is never done
		return nil
	}
	return c
}

// CtxErr replaces ctx.Err() in rewritten code: a scheduling point that reads
// the context.
func CtxErr(ctx context.Context) error {
	c := findCtx(ctx)
	if c == nil {
		return ctx.Err()
	}
	t := enter()
	var err error
	a := arm{kind: aSimple, obj: c.done.core.obj, label: "ctx.Err"}
	a.apply = func() { err = c.err }
	t.do(&op{arms: []arm{a}})
	return err
}

// Done replaces ctx.Done() in rewritten code.
func Done(ctx context.Context) *Chan[struct{}] {
	c := findCtx(ctx)
	if c == nil {
		if ctx.Done() != nil && !isLive(ctx) {
			panic("vs.Done: cancellable context that is not modelled (unowned nondeterminism)")
		}
		return nil
	}
	return c.done
}
