package vs

import (
	"fmt"
	"go/token"
	"os"
	"reflect"
	"sort"
	"strconv"
	"strings"
)

// MapKeys returns the keys of m in an order chosen by the explorer: the
// canonical (sorted) order by default, any permutation when the execution's
// permutation oracle asks for one. Outside an execution it returns sorted keys.
//
//go:norace
func MapKeys[K comparable, V any](m map[K]V) []K {
	keys := make([]K, 0, len(m))
	for k := range m {
		keys = append(keys, k)
	}
	sort.Slice(keys, func(i, j int) bool { return keyLess(keys[i], keys[j]) })
	if Active() && len(keys) >= 2 && len(keys) <= MaxPermKeys {
		// inside an execution the iteration order is a decision of the explorer
		perm := nthPerm(len(keys), Choose(factorial(len(keys)), "maporder"))
		out := make([]K, len(keys))
		for i, p := range perm {
			out[i] = keys[p]
		}
		return out
	}
	if PermHook != nil {
		perm := PermHook(len(keys))
		if perm != nil {
			out := make([]K, len(keys))
			for i, p := range perm {
				out[i] = keys[p]
			}
			return out
		}
	}
	return keys
}

// PermHook, when set, is asked for a permutation of n elements at every
// MapKeys call (nil = identity).
var PermHook func(n int) []int

func keyLess(a, b any) bool {
	// syntax nodes: source position is a process-independent order
	if pa, ok := a.(interface{ Pos() token.Pos }); ok {
		if pb, ok := b.(interface{ Pos() token.Pos }); ok {
			return pa.Pos() < pb.Pos()
		}
	}
	va, vb := reflect.ValueOf(a), reflect.ValueOf(b)
	switch va.Kind() {
	case reflect.Int, reflect.Int8, reflect.Int16, reflect.Int32, reflect.Int64:
		return va.Int() < vb.Int()
	case reflect.Uint, reflect.Uint8, reflect.Uint16, reflect.Uint32, reflect.Uint64, reflect.Uintptr:
		return va.Uint() < vb.Uint()
	case reflect.String:
		return va.String() < vb.String()
	case reflect.Float32, reflect.Float64:
		return va.Float() < vb.Float()
	}
	return fmt.Sprintf("%#v", a) < fmt.Sprintf("%#v", b)
}

// MaxPermKeys bounds the size of maps whose iteration order is explored
// exhaustively inside an execution (larger maps iterate in sorted order).
var MaxPermKeys = 3

func factorial(n int) int {
	f := 1
	for i := 2; i <= n; i++ {
		f *= i
	}
	return f
}

// nthPerm returns the k-th permutation of 0..n-1 in lexicographic order.
func nthPerm(n, k int) []int {
	avail := make([]int, n)
	for i := range avail {
		avail[i] = i
	}
	out := make([]int, 0, n)
	for i := n; i >= 1; i-- {
		f := factorial(i - 1)
		j := k / f
		k %= f
		out = append(out, avail[j])
		avail = append(avail[:j], avail[j+1:]...)
	}
	return out
}

// Choose is a data-nondeterminism point: the explorer picks a value in
// 0..n-1. It touches no shared object (independent of every other thread).
func Choose(n int, label string) int {
	if n <= 1 {
		return 0
	}
	t := enter()
	obj := &object{id: -1000 - t.id, name: label}
	o := &op{arms: make([]arm, n)}
	for i := range o.arms {
		o.arms[i] = arm{kind: aSimple, obj: obj, label: "choose" + strconv.Itoa(i) + "/" + strconv.Itoa(n)}
	}
	return t.do(o).arm
}

// Outside an execution (the cff generator rebuilt with its map ranges going
// through MapKeys, property C17) the permutation oracle is driven by the
// environment, so that a parent process can enumerate iteration orders:
//
//	VERIF_PERM_LOG=<file>  append one line "<n>" per MapKeys call (n = number of keys)
//	VERIF_PERM=<k>:<p>,... at call number k use permutation number p of PermFamily(n)
func init() {
	logf, spec := os.Getenv("VERIF_PERM_LOG"), os.Getenv("VERIF_PERM")
	if logf == "" && spec == "" {
		return
	}
	dev := map[int]int{}
	for _, part := range strings.Split(spec, ",") {
		kv := strings.SplitN(part, ":", 2)
		if len(kv) == 2 {
			k, e1 := strconv.Atoi(kv[0])
			p, e2 := strconv.Atoi(kv[1])
			if e1 == nil && e2 == nil {
				dev[k] = p
			}
		}
	}
	call := 0
	PermHook = func(n int) []int {
		k := call
		call++
		if logf != "" {
			if f, err := os.OpenFile(logf, os.O_APPEND|os.O_CREATE|os.O_WRONLY, 0o644); err == nil {
				fmt.Fprintf(f, "%d\n", n)
				f.Close()
			}
		}
		p, ok := dev[k]
		if !ok || n < 2 {
			return nil
		}
		fam := PermFamily(n)
		if p < 0 || p >= len(fam) {
			fmt.Fprintf(os.Stderr, "VERIF_PERM: permutation %d out of range at call %d (n=%d)\n", p, k, n)
			os.Exit(3)
		}
		return fam[p]
	}
}

// PermFamily returns the permutations explored for a map with n keys: all n!
// for n <= 4; for larger maps the identity, the reversal, every rotation and
// every adjacent transposition. Element 0 is the identity.
func PermFamily(n int) [][]int {
	if n <= 4 {
		out := make([][]int, 0, factorial(n))
		for k := 0; k < factorial(n); k++ {
			out = append(out, nthPerm(n, k))
		}
		return out
	}
	id := make([]int, n)
	for i := range id {
		id[i] = i
	}
	out := [][]int{id}
	rev := make([]int, n)
	for i := range rev {
		rev[i] = n - 1 - i
	}
	out = append(out, rev)
	for r := 1; r < n; r++ {
		p := make([]int, n)
		for i := range p {
			p[i] = (i + r) % n
		}
		out = append(out, p)
	}
	for i := 0; i+1 < n; i++ {
		p := append([]int{}, id...)
		p[i], p[i+1] = p[i+1], p[i]
		out = append(out, p)
	}
	return out
}
