package vs

import (
	"fmt"
	"reflect"
	"sort"
)

// MapKeys returns the keys of m in an order chosen by the explorer: the
// canonical (sorted) order by default, any permutation when the execution's
// permutation oracle asks for one. Outside an execution it returns sorted keys.
func MapKeys[K comparable, V any](m map[K]V) []K {
	keys := make([]K, 0, len(m))
	for k := range m {
		keys = append(keys, k)
	}
	sort.Slice(keys, func(i, j int) bool { return keyLess(keys[i], keys[j]) })
	if PermHook != nil {
		perm := PermHook(len(keys))
		if perm != nil {
			out := make([]K, len(keys))
			for i, p := range perm {
				out[i] = keys[p]
			}
			return out
		}
	}
	return keys
}

// PermHook, when set, is asked for a permutation of n elements at every
// MapKeys call (nil = identity).
var PermHook func(n int) []int

func keyLess(a, b any) bool {
	va, vb := reflect.ValueOf(a), reflect.ValueOf(b)
	switch va.Kind() {
	case reflect.Int, reflect.Int8, reflect.Int16, reflect.Int32, reflect.Int64:
		return va.Int() < vb.Int()
	case reflect.Uint, reflect.Uint8, reflect.Uint16, reflect.Uint32, reflect.Uint64, reflect.Uintptr:
		return va.Uint() < vb.Uint()
	case reflect.String:
		return va.String() < vb.String()
	case reflect.Float32, reflect.Float64:
		return va.Float() < vb.Float()
	}
	return fmt.Sprintf("%#v", a) < fmt.Sprintf("%#v", b)
}
