package vs

import "fmt"

// Replacements for sync and sync/atomic in rewritten packages. Every operation
// is a scheduling point on the primitive's object.

func lazyObj(o **object, kind string) *object {
	if *o == nil {
		*o = S.newObject(kind)
		(*o).name = fmt.Sprintf("%s#%d", kind, (*o).id)
	}
	return *o
}

func simple(o *object, write bool, label string, enabled func() bool, apply func()) {
	t := enter()
	t.do(&op{arms: []arm{{kind: aSimple, obj: o, write: write, label: label, enabled: enabled, apply: apply}}})
}

// Mutex replaces sync.Mutex.
type Mutex struct {
	o      *object
	locked bool
}

func (m *Mutex) Lock() {
	simple(lazyObj(&m.o, "mutex"), true, "lock", func() bool { return !m.locked }, func() { m.locked = true })
}

func (m *Mutex) TryLock() bool {
	ok := false
	simple(lazyObj(&m.o, "mutex"), true, "trylock", nil, func() {
		if !m.locked {
			m.locked = true
			ok = true
		}
	})
	return ok
}

func (m *Mutex) Unlock() {
	bad := false
	simple(lazyObj(&m.o, "mutex"), true, "unlock", nil, func() {
		if !m.locked {
			bad = true
		}
		m.locked = false
	})
	if bad {
		panic("sync: unlock of unlocked mutex")
	}
}

// RWMutex replaces sync.RWMutex.
type RWMutex struct {
	o       *object
	writer  bool
	readers int
}

func (m *RWMutex) Lock() {
	simple(lazyObj(&m.o, "rwmutex"), true, "lock", func() bool { return !m.writer && m.readers == 0 }, func() { m.writer = true })
}
func (m *RWMutex) Unlock() {
	simple(lazyObj(&m.o, "rwmutex"), true, "unlock", nil, func() { m.writer = false })
}
func (m *RWMutex) RLock() {
	simple(lazyObj(&m.o, "rwmutex"), true, "rlock", func() bool { return !m.writer }, func() { m.readers++ })
}
func (m *RWMutex) RUnlock() {
	simple(lazyObj(&m.o, "rwmutex"), true, "runlock", nil, func() { m.readers-- })
}

// WaitGroup replaces sync.WaitGroup.
type WaitGroup struct {
	o *object
	n int
}

func (w *WaitGroup) Add(d int) {
	neg := false
	simple(lazyObj(&w.o, "waitgroup"), true, "wg.add", nil, func() {
		w.n += d
		if w.n < 0 {
			neg = true
		}
	})
	if neg {
		panic("sync: negative WaitGroup counter")
	}
}
func (w *WaitGroup) Done() { w.Add(-1) }
func (w *WaitGroup) Wait() {
	simple(lazyObj(&w.o, "waitgroup"), true, "wg.wait", func() bool { return w.n == 0 }, nil)
}

// Once replaces sync.Once.
type Once struct {
	m    Mutex
	done bool
}

func (o *Once) Do(f func()) {
	o.m.Lock()
	defer o.m.Unlock()
	if !o.done {
		defer func() { o.done = true }()
		f()
	}
}

// ---------------------------------------------------------------- atomics

type atomicCell[T any] struct {
	o *object
	v T
}

//go:norace
func (a *atomicCell[T]) load() (v T) {
	simple(lazyObj(&a.o, "atomic"), false, "load", nil, func() { v = a.v })
	return
}

//go:norace
func (a *atomicCell[T]) store(v T) {
	simple(lazyObj(&a.o, "atomic"), true, "store", nil, func() { a.v = v })
}

//go:norace
func (a *atomicCell[T]) swap(v T) (old T) {
	simple(lazyObj(&a.o, "atomic"), true, "swap", nil, func() { old = a.v; a.v = v })
	return
}

//go:norace
func (a *atomicCell[T]) rmw(f func(T) T) (nv T) {
	simple(lazyObj(&a.o, "atomic"), true, "rmw", nil, func() { a.v = f(a.v); nv = a.v })
	return
}

// AtomicBool replaces atomic.Bool.
type AtomicBool struct{ c atomicCell[bool] }

func (a *AtomicBool) Load() bool       { return a.c.load() }
func (a *AtomicBool) Store(v bool)     { a.c.store(v) }
func (a *AtomicBool) Swap(v bool) bool { return a.c.swap(v) }
func (a *AtomicBool) CompareAndSwap(o, n bool) (ok bool) {
	a.c.rmw(func(c bool) bool {
		if c == o {
			ok = true
			return n
		}
		return c
	})
	return
}

type integer interface {
	~int32 | ~int64 | ~uint32 | ~uint64 | ~uintptr | ~int
}

// AtomicInt replaces atomic.Int32/Int64/Uint32/Uint64.
type AtomicInt[T integer] struct{ c atomicCell[T] }

//go:norace
func (a *AtomicInt[T]) Load() T { return a.c.load() }

//go:norace
func (a *AtomicInt[T]) Store(v T) { a.c.store(v) }

//go:norace
func (a *AtomicInt[T]) Swap(v T) T { return a.c.swap(v) }

//go:norace
func (a *AtomicInt[T]) Add(d T) T { return a.c.rmw(func(c T) T { return c + d }) }

//go:norace
func (a *AtomicInt[T]) CompareAndSwap(o, n T) (ok bool) {
	a.c.rmw(func(c T) T {
		if c == o {
			ok = true
			return n
		}
		return c
	})
	return
}

type (
	AtomicInt32  = AtomicInt[int32]
	AtomicInt64  = AtomicInt[int64]
	AtomicUint32 = AtomicInt[uint32]
	AtomicUint64 = AtomicInt[uint64]
)

// AtomicValue replaces atomic.Value.
type AtomicValue struct{ c atomicCell[any] }

func (a *AtomicValue) Load() any      { return a.c.load() }
func (a *AtomicValue) Store(v any)    { a.c.store(v) }
func (a *AtomicValue) Swap(v any) any { return a.c.swap(v) }

// AtomicPointer replaces atomic.Pointer[T].
type AtomicPointer[T any] struct{ c atomicCell[*T] }

//go:norace
func (a *AtomicPointer[T]) Load() *T { return a.c.load() }

//go:norace
func (a *AtomicPointer[T]) Store(v *T) { a.c.store(v) }

//go:norace
func (a *AtomicPointer[T]) Swap(v *T) *T { return a.c.swap(v) }

//go:norace
func (a *AtomicPointer[T]) CompareAndSwap(o, n *T) (ok bool) {
	a.c.rmw(func(c *T) *T {
		if c == o {
			ok = true
			return n
		}
		return c
	})
	return
}

// Function-style atomics on plain words: a scheduling point keyed by address.

func addrObj(p any) *object {
	s := S
	if s.addrObjs == nil {
		s.addrObjs = map[any]*object{}
	}
	o := s.addrObjs[p]
	if o == nil {
		o = s.newObject("atomicword")
		o.name = fmt.Sprintf("atomicword#%d", o.id)
		s.addrObjs[p] = o
	}
	return o
}

//go:norace
func AtomicLoad[T integer](p *T) (v T) {
	simple(addrObj(p), false, "load", nil, func() { v = *p })
	return
}

//go:norace
func AtomicStore[T integer](p *T, v T) {
	simple(addrObj(p), true, "store", nil, func() { *p = v })
}

//go:norace
func AtomicAdd[T integer](p *T, d T) (v T) {
	simple(addrObj(p), true, "add", nil, func() { *p += d; v = *p })
	return
}

//go:norace
func AtomicSwap[T integer](p *T, n T) (old T) {
	simple(addrObj(p), true, "swap", nil, func() { old = *p; *p = n })
	return
}

//go:norace
func AtomicCAS[T integer](p *T, o, n T) (ok bool) {
	simple(addrObj(p), true, "cas", nil, func() {
		if *p == o {
			*p = n
			ok = true
		}
	})
	return
}
