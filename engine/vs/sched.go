// Package vs is the verification shim for cff: a cooperative scheduler that owns
// every scheduling decision of a program whose concurrency primitives have been
// rewritten to go through it (see /verif/engine/rewrite), plus a stateless
// explorer (explore.go) that enumerates those decisions exhaustively.
//
// It is injected into the cff module as go.uber.org/cff/zzverif/vs through a
// `go build -overlay`; it is never committed to the repository.
package vs

import (
	"fmt"
	"runtime"
	"runtime/debug"
	"sort"
	"strconv"
	"strings"
	"sync"
	"time"
)

// ---------------------------------------------------------------- vector clocks

// VC is a vector clock indexed by thread id.
type VC []int32

func (a VC) clone() VC {
	b := make(VC, len(a))
	for i, x := range a {
		b[i] = x
	}
	return b
}

func joinVC(a, b VC) VC {
	if len(b) > len(a) {
		a, b = b, a
	}
	r := a.clone()
	for i, x := range b {
		if x > r[i] {
			r[i] = x
		}
	}
	return r
}

// Leq reports a <= b pointwise (a happens-before-or-equals b).
func (a VC) Leq(b VC) bool {
	for i, x := range a {
		if x == 0 {
			continue
		}
		if i >= len(b) || x > b[i] {
			return false
		}
	}
	return true
}

// HB reports whether the event stamped a happens-before the event stamped b.
// Stamps are taken after the owning thread ticked, so equal stamps only occur
// for the same event.
func HB(a, b VC) bool {
	if !a.Leq(b) {
		return false
	}
	if len(a) != len(b) {
		return true
	}
	for i := range a {
		if a[i] != b[i] {
			return true
		}
	}
	return false
}

// ---------------------------------------------------------------- ops / arms

type armKind uint8

const (
	aSend armKind = iota
	aRecv
	aClose
	aSimple
)

// object is anything with an identity that a transition can touch.
type object struct {
	id    int
	name  string
	vc    VC
	syncw uint64 // race build: address standing for the object's synchronisation clock
}

type arm struct {
	kind armKind
	ch   *chanCore // aSend/aRecv/aClose (nil => never enabled)
	val  any       // aSend

	// aSimple
	obj     *object
	write   bool
	label   string
	enabled func() bool
	apply   func()
	extra   []int // further object ids written
}

type op struct {
	arms       []arm
	hasDefault bool
	desc       string
}

type opResult struct {
	arm      int // index of arm taken; -1 for default
	val      any
	ok       bool
	panicMsg string

	// race build: what the thread must tell the race detector about the
	// transition it took part in
	kind    accKind
	partner *thread   // kRendezvous
	pslot   int       // which of the partner's two clock slots belongs to this rendezvous
	ch      *chanCore // channel transitions
	slot    int       // buffered slot index
	obj     *object   // kRead/kWrite
}

// access kinds of a transition, for the independence relation
type accKind uint8

const (
	kRendezvous accKind = iota
	kBufSend
	kBufRecv
	kClosedRecv
	kClose
	kSendClosed
	kTick
	kRead
	kWrite
	kDefault
)

var accNames = [...]string{"rdv", "bsend", "brecv", "crecv", "close", "sendclosed", "tick", "read", "write", "default"}

// Trans is one enabled transition at a decision point.
type Trans struct {
	Tid, Arm   int // initiating thread and the arm of its pending op (-1 default)
	Ptid, Parm int // rendezvous partner, or -1
	Obj        int // object id
	Kind       accKind
	Mid        bool  // buffered channel with 1 <= len <= cap-1 in the state where it was computed
	Extra      []int // kDefault: ids of all channels of the select
	Desc       string
}

func (t Trans) key() [4]int { return [4]int{t.Tid, t.Arm, t.Ptid, t.Parm} }

func (t Trans) String() string {
	if t.Ptid >= 0 {
		return fmt.Sprintf("T%d/%d<->T%d/%d %s", t.Tid, t.Arm, t.Ptid, t.Parm, t.Desc)
	}
	return fmt.Sprintf("T%d/%d %s", t.Tid, t.Arm, t.Desc)
}

// Dependent reports whether sleeping transition a and the transition b that is
// about to be executed (both enabled in the current state) are dependent.
func Dependent(a, b Trans) bool {
	if a.Tid == b.Tid || (a.Ptid >= 0 && (a.Ptid == b.Tid || a.Ptid == b.Ptid)) || (b.Ptid >= 0 && b.Ptid == a.Tid) {
		return true
	}
	for _, o := range a.Extra {
		if o == b.Obj {
			return true
		}
		for _, p := range b.Extra {
			if o == p {
				return true
			}
		}
	}
	for _, o := range b.Extra {
		if o == a.Obj {
			return true
		}
	}
	if a.Kind == kDefault || b.Kind == kDefault {
		return false
	}
	if a.Obj != b.Obj {
		return false
	}
	switch {
	case a.Kind == kRendezvous && b.Kind == kRendezvous:
		return false
	case (a.Kind == kBufSend && b.Kind == kBufRecv) || (a.Kind == kBufRecv && b.Kind == kBufSend):
		return !b.Mid
	case a.Kind == kClosedRecv && b.Kind == kClosedRecv:
		return false
	case a.Kind == kRead && b.Kind == kRead:
		return false
	}
	return true
}

// ---------------------------------------------------------------- threads

type thread struct {
	id     int
	name   string
	wake   chan struct{}
	pend   *op
	res    opResult
	vc     VC
	done   bool // function returned / Goexit'ed / crashed
	exited bool // goroutine is gone (or never needs a wake)
	parent int
	nspawn int
	// race build: the thread's clock at its last two announcements. Two slots,
	// used alternately: after a rendezvous the initiator may announce its next
	// operation before the partner gets to acquire the clock of this one.
	syncw   [2]uint64
	syncIdx int
	gone    chan struct{} // closed when the goroutine has exited
}

// Event is a harness-visible record, stamped with the thread's vector clock.
type Event struct {
	Seq   int
	Tid   int
	Obj   string
	Label string
	Data  any
	VC    VC
	Step  int
}

func (e Event) String() string {
	if e.Data != nil {
		return fmt.Sprintf("T%d %s.%s(%v)", e.Tid, e.Obj, e.Label, e.Data)
	}
	return fmt.Sprintf("T%d %s.%s", e.Tid, e.Obj, e.Label)
}

// Terminal classification of an execution.
type Terminal int

const (
	TermQuiescent Terminal = iota // no enabled transition (all done or blocked)
	TermCrash                     // a panic escaped a thread
	TermHorizon                   // step horizon exceeded
	TermBlocked                   // sleep-set blocked: redundant execution, pruned
	TermToolError
)

func (t Terminal) String() string {
	return [...]string{"quiescent", "crash", "horizon", "sleep-blocked", "tool-error"}[t]
}

// ThreadInfo describes a thread at the end of an execution.
type ThreadInfo struct {
	ID      int
	Name    string
	Done    bool
	Pending string // description of the op it is blocked on, if any
}

// Exec is the record of one execution.
type Exec struct {
	Decisions []int
	Options   []int // number of enabled transitions at each decision
	Trace     []string
	Log       []Event
	Term      Terminal
	CrashTid  int
	CrashVal  any
	CrashStk  string
	Threads   []ThreadInfo
	Steps     int
	ToolErr   string
	Spawned   int
	MaxAlive  int
}

// Chooser decides which enabled transition runs next. Returning -1 aborts the
// execution as sleep-blocked.
type Chooser func(depth int, enabled []Trans, lastTid int) int

// Config of one execution.
type Config struct {
	Ticks      int // tick budget: how many ticker/timer firings may be observed
	MaxSteps   int
	GOMAXPROCS int
	KeepTrace  bool
}

type sched struct {
	cfg      Config
	threads  []*thread
	cur      *thread
	runq     []*thread
	aborting bool
	doneCh   chan struct{}
	finished bool
	wg       sync.WaitGroup
	choose   Chooser
	nobj     int
	ticks    int
	tickObj  *object
	lastTid  int
	alive    int
	addrObjs map[any]*object
	abortw   uint64 // race build: orders the teardown of leftover goroutines

	ex *Exec
}

// S is the scheduler of the execution in progress. Exactly one thread of an
// execution runs at any time, so it is accessed without locking; the hand-off
// channels provide the memory ordering.
var S *sched

func (s *sched) newObject(name string) *object {
	s.nobj++
	return &object{id: s.nobj, name: name}
}

func plainPanic(msg string) { panic(shimPanic(msg)) }

// shimPanic mirrors runtime.plainError for the panics channels raise.
type shimPanic string

func (e shimPanic) Error() string { return string(e) }
func (e shimPanic) RuntimeError() {}

// enter returns the current thread, or kills the goroutine when the execution
// is being torn down.
func enter() *thread {
	s := S
	if s == nil {
		panic("vs: shim operation outside an execution")
	}
	if s.aborting {
		runtime.Goexit()
	}
	return s.cur
}

// Active reports whether an execution is in progress and not being torn down.
func Active() bool { return S != nil && !S.aborting }

func (s *sched) spawn(parent *thread, f func()) *thread {
	t := &thread{id: len(s.threads), wake: make(chan struct{}, 1), parent: -1, gone: make(chan struct{})}
	if parent != nil {
		t.parent = parent.id
		t.name = parent.name + "." + strconv.Itoa(parent.nspawn)
		parent.nspawn++
		parent.vc = parent.vc.clone()
		t.vc = parent.vc.clone()
		s.tick(parent)
	} else {
		t.name = "0"
	}
	for len(t.vc) <= t.id {
		t.vc = append(t.vc, 0)
	}
	t.vc[t.id] = 1
	s.threads = append(s.threads, t)
	s.ex.Spawned++
	s.alive++
	if s.alive > s.ex.MaxAlive {
		s.ex.MaxAlive = s.alive
	}
	s.wg.Add(1)
	// the spawn edge is the runtime's own (the go statement); the native
	// hand-offs between thread goroutines are hidden from the race detector
	go func() {
		defer close(t.gone)
		defer s.wg.Done()
		raceOff()
		<-t.wake
		raceOn()
		if s.aborting {
			raceAcquire(&s.abortw)
			t.exited = true
			return
		}
		defer func() {
			r := recover()
			t.exited = true
			if s.aborting {
				return
			}
			t.done = true
			s.alive--
			if RaceBuild {
				t.syncIdx ^= 1
				raceRelease(&t.syncw[t.syncIdx])
			}
			if r != nil {
				s.ex.Term = TermCrash
				s.ex.CrashTid = t.id
				s.ex.CrashVal = r
				s.ex.CrashStk = string(debug.Stack())
				s.finish()
				return
			}
			s.handoff(nil)
			if RaceBuild {
				// Keep the goroutine until the execution is torn down: the race
				// detector can only report a race with an earlier access whose
				// goroutine it still has a trace for, and it recycles the traces
				// of finished goroutines (measured: reports against a worker that
				// had already exited were dropped in most runs).
				raceOff()
				<-t.wake
				raceOn()
				raceAcquire(&s.abortw)
			}
		}()
		f()
	}()
	return t
}

func (s *sched) tick(t *thread) {
	for len(t.vc) <= t.id {
		t.vc = append(t.vc, 0)
	}
	t.vc[t.id]++
}

// finish ends the execution; called by the thread that detects the terminal
// state. The driver tears the remaining goroutines down.
func (s *sched) finish() {
	if s.finished {
		return
	}
	s.finished = true
	close(s.doneCh)
}

// handoff gives control to the next thread. from is the calling thread if it
// is going to park (it has announced an op), or nil if it is exiting.
func (s *sched) handoff(from *thread) {
	next := s.pickNext()
	if next != nil && next == from {
		return
	}
	raceOff()
	if next != nil {
		s.cur = next
		next.wake <- struct{}{}
	} else {
		s.finish()
	}
	if from != nil {
		<-from.wake
		raceOn()
		if s.aborting {
			raceAcquire(&s.abortw)
			runtime.Goexit()
		}
		return
	}
	raceOn()
}

// do announces an op for thread t and returns once it has been performed.
func (t *thread) do(o *op) opResult {
	s := S
	if RaceBuild {
		// publish this thread's clock as of the operation (nothing happens
		// on this goroutine between the announcement and the wake-up)
		t.syncIdx ^= 1
		raceRelease(&t.syncw[t.syncIdx])
	}
	t.pend = o
	s.handoff(t)
	if RaceBuild {
		t.racePost()
	}
	return t.res
}

// racePost emits, on the thread's own goroutine, the synchronisation Go's
// runtime performs for the primitive the thread just executed (runtime/chan.go:
// racesync for unbuffered channels, racenotify for buffered slots,
// racerelease/raceacquire on close and receive-from-closed; a mutex-like
// release/acquire for context cancellation and the sync/atomic shims).
func (t *thread) racePost() {
	r := &t.res
	if r.arm < 0 {
		return
	}
	switch r.kind {
	case kRendezvous:
		if r.partner != nil {
			raceAcquire(&r.partner.syncw[r.pslot])
		}
	case kBufSend, kBufRecv:
		w := &r.ch.slotw[r.slot]
		raceAcquire(w)
		raceReleaseMerge(w)
	case kClose:
		raceReleaseMerge(&r.ch.closew)
	case kClosedRecv:
		raceAcquire(&r.ch.closew)
		// a context's done channel is closed by cancellation, which releases on the channel's object
		raceAcquire(&r.ch.obj.syncw)
	case kWrite:
		raceAcquire(&r.obj.syncw)
		raceReleaseMerge(&r.obj.syncw)
	case kRead:
		raceAcquire(&r.obj.syncw)
	}
}

// pickNext returns the thread to run next: one from the run queue (threads
// that must reach their next announcement), or the initiator of a freshly
// chosen and applied transition. nil at a terminal state.
func (s *sched) pickNext() *thread {
	if s.finished {
		return nil
	}
	if n := len(s.runq); n > 0 {
		t := s.runq[n-1]
		s.runq = s.runq[:n-1]
		return t
	}
	if s.ex.Steps >= s.cfg.MaxSteps {
		s.ex.Term = TermHorizon
		return nil
	}
	en := s.enabled()
	if len(en) == 0 {
		s.ex.Term = TermQuiescent
		return nil
	}
	depth := len(s.ex.Decisions)
	idx := s.choose(depth, en, s.lastTid)
	if idx == -1 {
		s.ex.Term = TermBlocked
		return nil
	}
	if idx < 0 || idx >= len(en) {
		s.ex.Term = TermToolError
		s.ex.ToolErr = fmt.Sprintf("NONDETERMINISM: decision %d: choice %d out of range (%d options)", depth, idx, len(en))
		return nil
	}
	s.ex.Decisions = append(s.ex.Decisions, idx)
	s.ex.Options = append(s.ex.Options, len(en))
	tr := en[idx]
	if s.cfg.KeepTrace {
		s.ex.Trace = append(s.ex.Trace, tr.String())
	}
	s.ex.Steps++
	s.apply(tr)
	s.lastTid = tr.Tid
	n := len(s.runq)
	t := s.runq[n-1]
	s.runq = s.runq[:n-1]
	return t
}

// enabled computes all enabled transitions in canonical order.
func (s *sched) enabled() []Trans {
	var out []Trans
	for _, t := range s.threads {
		if t.done || t.pend == nil {
			continue
		}
		o := t.pend
		definite := false
		n0 := len(out)
		for ai := range o.arms {
			a := &o.arms[ai]
			switch a.kind {
			case aSend:
				c := a.ch
				if c == nil {
					continue
				}
				if c.closed {
					out = append(out, Trans{Tid: t.id, Arm: ai, Ptid: -1, Parm: -1, Obj: c.obj.id, Kind: kSendClosed, Desc: "send-on-closed " + c.obj.name})
					definite = true
				} else if c.cap == 0 {
					for _, p := range s.threads {
						if p == t || p.done || p.pend == nil {
							continue
						}
						for pi := range p.pend.arms {
							pa := &p.pend.arms[pi]
							if pa.kind == aRecv && pa.ch == c {
								out = append(out, Trans{Tid: t.id, Arm: ai, Ptid: p.id, Parm: pi, Obj: c.obj.id, Kind: kRendezvous, Desc: "send " + c.obj.name})
							}
						}
					}
				} else if len(c.buf) < c.cap {
					out = append(out, Trans{Tid: t.id, Arm: ai, Ptid: -1, Parm: -1, Obj: c.obj.id, Kind: kBufSend, Mid: len(c.buf) >= 1 && len(c.buf) <= c.cap-1, Desc: "send " + c.obj.name})
					definite = true
				}
			case aRecv:
				c := a.ch
				if c == nil {
					continue
				}
				if c.ticker {
					if s.ticks > 0 && !c.stopped {
						out = append(out, Trans{Tid: t.id, Arm: ai, Ptid: -1, Parm: -1, Obj: s.tickObj.id, Kind: kTick, Desc: "tick " + c.obj.name})
					}
				} else if len(c.buf) > 0 {
					out = append(out, Trans{Tid: t.id, Arm: ai, Ptid: -1, Parm: -1, Obj: c.obj.id, Kind: kBufRecv, Mid: len(c.buf) >= 1 && len(c.buf) <= c.cap-1, Desc: "recv " + c.obj.name})
					definite = true
				} else if c.closed {
					out = append(out, Trans{Tid: t.id, Arm: ai, Ptid: -1, Parm: -1, Obj: c.obj.id, Kind: kClosedRecv, Desc: "recv-closed " + c.obj.name})
					definite = true
				}
				// unbuffered receive: enumerated from the sender's side
			case aClose:
				c := a.ch
				if c == nil {
					// close(nil) panics in Go
					out = append(out, Trans{Tid: t.id, Arm: ai, Ptid: -1, Parm: -1, Obj: 0, Kind: kClose, Desc: "close nil"})
					continue
				}
				out = append(out, Trans{Tid: t.id, Arm: ai, Ptid: -1, Parm: -1, Obj: c.obj.id, Kind: kClose, Desc: "close " + c.obj.name})
				definite = true
			case aSimple:
				if a.enabled == nil || a.enabled() {
					k := kRead
					if a.write {
						k = kWrite
					}
					out = append(out, Trans{Tid: t.id, Arm: ai, Ptid: -1, Parm: -1, Obj: a.obj.id, Kind: k, Extra: a.extra, Desc: a.label + " " + a.obj.name})
					definite = true
				}
			}
		}
		if o.hasDefault && !definite {
			// Go takes default when no arm can proceed; an unbuffered arm whose
			// partner is merely *about to* call may or may not be parked yet,
			// so default stays possible next to such arms.
			var extra []int
			for ai := range o.arms {
				if c := o.arms[ai].ch; c != nil {
					extra = append(extra, c.obj.id)
				}
			}
			_ = n0
			out = append(out, Trans{Tid: t.id, Arm: -1, Ptid: -1, Parm: -1, Obj: -1, Kind: kDefault, Extra: extra, Desc: "default"})
		}
	}
	// Rendezvous whose receiver sits in a select-with-default also appear
	// (from the sender's side) above; nothing more to add.
	return out
}

func (s *sched) apply(tr Trans) {
	t := s.threads[tr.Tid]
	o := t.pend
	t.pend = nil
	t.vc = t.vc.clone()
	if tr.Arm == -1 {
		t.res = opResult{arm: -1}
		s.tick(t)
		s.runq = append(s.runq, t)
		return
	}
	a := &o.arms[tr.Arm]
	t.res = opResult{arm: tr.Arm, kind: tr.Kind, ch: a.ch, obj: a.obj}
	switch a.kind {
	case aSend:
		c := a.ch
		switch tr.Kind {
		case kSendClosed:
			t.res.panicMsg = "send on closed channel"
		case kRendezvous:
			p := s.threads[tr.Ptid]
			p.pend = nil
			p.res = opResult{arm: tr.Parm, val: a.val, ok: true, kind: kRendezvous, partner: t, pslot: t.syncIdx, ch: c}
			t.res.partner, t.res.pslot = p, p.syncIdx
			j := joinVC(t.vc, p.vc)
			t.vc = j
			p.vc = j.clone()
			s.tick(p)
			s.runq = append(s.runq, p)
		case kBufSend:
			k := c.nsent
			c.nsent++
			t.res.slot = k % c.cap
			if k >= c.cap {
				// receive k-cap happens-before send k completes
				t.vc = joinVC(t.vc, c.recvVC[(k-c.cap)%c.cap])
			}
			s.tick(t)
			c.buf = append(c.buf, bufElem{v: a.val, vc: t.vc.clone()})
			s.runq = append(s.runq, t)
			return
		}
	case aRecv:
		c := a.ch
		switch tr.Kind {
		case kTick:
			s.ticks--
			if c.oneshot {
				c.stopped = true
			}
			t.vc = joinVC(t.vc, s.tickObj.vc)
			s.tick(t)
			s.tickObj.vc = t.vc.clone()
			t.res.val = time.Time{}
			t.res.ok = true
			s.runq = append(s.runq, t)
			return
		case kBufRecv:
			e := c.buf[0]
			c.buf = c.buf[1:]
			t.res.slot = c.nrecv % c.cap
			t.vc = joinVC(t.vc, e.vc)
			s.tick(t)
			if c.recvVC == nil {
				c.recvVC = make([]VC, c.cap)
			}
			c.recvVC[c.nrecv%c.cap] = t.vc.clone()
			c.nrecv++
			t.res.val = e.v
			t.res.ok = true
			s.runq = append(s.runq, t)
			return
		case kClosedRecv:
			t.vc = joinVC(t.vc, c.closeVC)
			t.res.val = nil
			t.res.ok = false
		}
	case aClose:
		c := a.ch
		if c == nil {
			t.res.panicMsg = "close of nil channel"
		} else if c.closed {
			t.res.panicMsg = "close of closed channel"
		} else {
			c.closed = true
			s.tick(t)
			c.closeVC = t.vc.clone()
			s.runq = append(s.runq, t)
			return
		}
	case aSimple:
		t.vc = joinVC(t.vc, a.obj.vc)
		s.tick(t)
		if a.write {
			a.obj.vc = t.vc.clone()
		}
		if a.apply != nil {
			a.apply()
		}
		s.runq = append(s.runq, t)
		return
	}
	s.tick(t)
	s.runq = append(s.runq, t)
}

// ---------------------------------------------------------------- public thread API

// Go starts f as a new thread of the execution. The new thread runs up to its
// first announced operation before the caller continues (those steps are local
// to it), so that every thread is parked on a known operation at each decision.
func Go(f func()) {
	s := S
	if s == nil {
		panic("vs.Go outside an execution")
	}
	if s.aborting {
		return
	}
	p := s.cur
	t := s.spawn(p, f)
	s.runq = append(s.runq, p)
	s.cur = t
	if RaceBuild {
		p.syncIdx ^= 1
		raceRelease(&p.syncw[p.syncIdx])
	}
	raceOff()
	t.wake <- struct{}{}
	<-p.wake
	raceOn()
	if s.aborting {
		raceAcquire(&s.abortw)
		runtime.Goexit()
	}
}

// Emit records a harness-visible event stamped with the thread's vector clock.
// It is not a scheduling point.
func Emit(obj, label string, data any) {
	t := enter()
	s := S
	t.vc = t.vc.clone()
	s.tick(t)
	s.ex.Log = append(s.ex.Log, Event{Seq: len(s.ex.Log), Tid: t.id, Obj: obj, Label: label, Data: data, VC: t.vc.clone(), Step: s.ex.Steps})
}

// Tid returns the id of the calling thread.
func Tid() int { return enter().id }

// Now returns a copy of the calling thread's vector clock.
func Now() VC { return enter().vc.clone() }

// Yield is an always-enabled scheduling point touching no shared object.
func Yield() {
	t := enter()
	o := &op{arms: []arm{{kind: aSimple, obj: &object{id: -100 - t.id, name: "yield"}, label: "yield"}}}
	t.do(o)
}

// WaitUntil blocks the calling (harness) thread until cond holds. cond reads
// harness state; it may only go from false to true. The step touches no shared
// object and carries no happens-before edge in the race build: a harness
// thread that reacts to "the directive has returned" must not order the
// caller's later actions before whatever it then releases.
func WaitUntil(cond func() bool, label string) {
	t := enter()
	o := &op{arms: []arm{{kind: aSimple, obj: &object{id: -2000 - t.id, name: label}, label: "wait-until", enabled: cond}}}
	t.do(o)
}

// GOMAXPROCS replaces runtime.GOMAXPROCS(0) in rewritten code.
func GOMAXPROCS(n int) int {
	if S != nil && S.cfg.GOMAXPROCS > 0 {
		return S.cfg.GOMAXPROCS
	}
	return runtime.GOMAXPROCS(n)
}

// ---------------------------------------------------------------- driver

// RunOnce executes body as thread 0 under chooser and returns the record.
func RunOnce(cfg Config, body func(), chooser Chooser) *Exec {
	if cfg.MaxSteps == 0 {
		cfg.MaxSteps = 5000
	}
	s := &sched{cfg: cfg, doneCh: make(chan struct{}), choose: chooser, ticks: cfg.Ticks, lastTid: -1, ex: &Exec{CrashTid: -1}}
	s.tickObj = s.newObject("ticks")
	S = s
	t0 := s.spawn(nil, body)
	s.cur = t0
	raceOff()
	t0.wake <- struct{}{}
	<-s.doneCh
	// Give the thread that called finish() time to park or exit: it either
	// blocks on its wake channel or returns; both are handled by the buffered
	// wake below.
	for _, t := range s.threads {
		info := ThreadInfo{ID: t.id, Name: t.name, Done: t.done}
		if !t.done && t.pend != nil {
			info.Pending = describeOp(t.pend)
		}
		s.ex.Threads = append(s.ex.Threads, info)
	}
	s.aborting = true
	raceOn()
	// Tear down what is left, one goroutine at a time and in plain view of the
	// race detector: killed goroutines run their deferred functions (code of
	// the program under test), and those must not appear to run concurrently.
	tm := time.NewTimer(20 * time.Second)
	if RaceBuild {
		// everything the threads did during the execution happens-before the teardown
		for _, t := range s.threads {
			select {
			case <-t.gone:
			default:
			}
			raceAcquire(&t.syncw[0])
			raceAcquire(&t.syncw[1])
		}
	}
teardown:
	for _, t := range s.threads {
		raceReleaseMerge(&s.abortw)
		select {
		case t.wake <- struct{}{}:
		default:
		}
		select {
		case <-t.gone:
		case <-tm.C:
			s.ex.Term = TermToolError
			s.ex.ToolErr = "teardown: goroutines of the execution did not exit (native blocking operation in explored code?)"
			break teardown
		}
	}
	tm.Stop()
	if s.ex.Term != TermToolError {
		s.wg.Wait()
	}
	S = nil
	return s.ex
}

func describeOp(o *op) string {
	if o.desc != "" {
		return o.desc
	}
	var parts []string
	for _, a := range o.arms {
		switch a.kind {
		case aSend:
			parts = append(parts, "send "+a.ch.name())
		case aRecv:
			parts = append(parts, "recv "+a.ch.name())
		case aClose:
			parts = append(parts, "close "+a.ch.name())
		case aSimple:
			parts = append(parts, a.label+" "+a.obj.name)
		}
	}
	sort.Strings(parts)
	r := strings.Join(parts, "|")
	if o.hasDefault {
		r += "|default"
	}
	return r
}
