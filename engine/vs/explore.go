package vs

import (
	"fmt"
	"hash/fnv"
	"time"
)

// Strategy of the stateless search.
type Strategy int

const (
	// Plain explores every sequence of enabled transitions.
	Plain Strategy = iota
	// SleepSets explores at least one execution per Mazurkiewicz trace
	// (all terminal states and all trace-closed violations are kept).
	SleepSets
)

// Options of an exploration.
type Options struct {
	Strategy     Strategy
	PreemptBound int // <0: unbounded. Only meaningful with Plain.
	Cfg          Config
	MaxExecs     int64
	Deadline     time.Time
	// Sharding: only subtrees rooted at depth ShardDepth whose running index
	// modulo ShardCount equals ShardIndex are explored.
	ShardIndex, ShardCount, ShardDepth int
	// AfterExec, if set, is called after every execution, pruned ones
	// included (the race build looks for new race reports there); returning
	// true stops the search.
	AfterExec func(*Exec) bool
}

// Stats of an exploration.
type Stats struct {
	Execs       int64 // executions started (including pruned ones)
	Complete    int64 // executions that reached a terminal state of the program
	Blocked     int64 // sleep-set blocked (redundant) executions
	Nodes       int64 // distinct decision states (schedule prefixes) visited
	Steps       int64 // transitions executed, including replayed prefixes
	Edges       int64 // distinct transitions (tree edges) explored
	MaxDepth    int
	Exhaustive  bool // the whole space (within PreemptBound) was covered
	CappedBy    string
	PreemptUsed int
}

type frame struct {
	fp       uint64
	enabled  []Trans
	sleep    []Trans
	explored []int
	cur      int
	preempt  int // preemptions used up to and including this frame's choice
}

type explorer struct {
	opt    Options
	stack  []frame
	st     Stats
	err    string
	shardN int
}

func fingerprint(en []Trans) uint64 {
	h := fnv.New64a()
	var b [6]byte
	for _, t := range en {
		b[0] = byte(t.Tid)
		b[1] = byte(t.Arm)
		b[2] = byte(t.Ptid)
		b[3] = byte(t.Parm)
		b[4] = byte(t.Kind)
		b[5] = byte(t.Obj)
		h.Write(b[:])
	}
	return h.Sum64()
}

func inSleep(sl []Trans, t Trans) bool {
	k := t.key()
	for _, x := range sl {
		if x.key() == k {
			return true
		}
	}
	return false
}

func preemptCost(en []Trans, lastTid int, cand Trans) int {
	if lastTid < 0 || cand.Tid == lastTid || cand.Ptid == lastTid {
		return 0
	}
	for _, t := range en {
		if t.Tid == lastTid || t.Ptid == lastTid {
			return 1
		}
	}
	return 0
}

func (e *explorer) candidateOK(f *frame, i int, base int, lastTid int) bool {
	if inSleep(f.sleep, f.enabled[i]) {
		return false
	}
	if e.opt.PreemptBound >= 0 && base+preemptCost(f.enabled, lastTid, f.enabled[i]) > e.opt.PreemptBound {
		return false
	}
	return true
}

// choose implements Chooser over the DFS stack.
func (e *explorer) choose(depth int, en []Trans, lastTid int) int {
	fp := fingerprint(en)
	if depth < len(e.stack) {
		f := &e.stack[depth]
		if f.fp != fp || len(f.enabled) != len(en) {
			e.err = fmt.Sprintf("NONDETERMINISM: replay diverged at decision %d: had %d options %v, now %d options %v", depth, len(f.enabled), f.enabled, len(en), en)
			return -2
		}
		return f.cur
	}
	e.st.Nodes++
	f := frame{fp: fp, enabled: en}
	base := 0
	if depth > 0 {
		p := &e.stack[depth-1]
		base = p.preempt
		if e.opt.Strategy == SleepSets {
			chosen := p.enabled[p.cur]
			for _, x := range p.sleep {
				if !Dependent(x, chosen) {
					f.sleep = append(f.sleep, x)
				}
			}
			for _, i := range p.explored {
				if x := p.enabled[i]; !Dependent(x, chosen) {
					f.sleep = append(f.sleep, x)
				}
			}
		}
	}
	f.cur = -1
	for i := range en {
		if e.candidateOK(&f, i, base, lastTid) {
			f.cur = i
			break
		}
	}
	if f.cur < 0 {
		return -1
	}
	f.preempt = base + preemptCost(en, lastTid, en[f.cur])
	e.stack = append(e.stack, f)
	e.st.Edges++
	if len(e.stack) > e.st.MaxDepth {
		e.st.MaxDepth = len(e.stack)
	}
	return f.cur
}

// lastTidAt recomputes the thread that ran before decision `depth`.
func (e *explorer) lastTidAt(depth int) int {
	if depth == 0 {
		return -1
	}
	p := &e.stack[depth-1]
	return p.enabled[p.cur].Tid
}

// backtrack advances the stack to the next unexplored branch.
func (e *explorer) backtrack() bool {
	for len(e.stack) > 0 {
		d := len(e.stack) - 1
		f := &e.stack[d]
		f.explored = append(f.explored, f.cur)
		base := 0
		if d > 0 {
			base = e.stack[d-1].preempt
		}
		last := e.lastTidAt(d)
		next := -1
		for i := f.cur + 1; i < len(f.enabled); i++ {
			if e.candidateOK(f, i, base, last) {
				next = i
				break
			}
		}
		if next >= 0 {
			f.cur = next
			f.preempt = base + preemptCost(f.enabled, last, f.enabled[next])
			e.st.Edges++
			return true
		}
		e.stack = e.stack[:d]
	}
	return false
}

// Explore enumerates executions of body. check is called after every complete
// (non-pruned) execution; returning true stops the search.
func Explore(opt Options, body func(), check func(*Exec) bool) (Stats, string) {
	e := &explorer{opt: opt}
	if opt.Strategy == SleepSets && opt.PreemptBound >= 0 {
		return e.st, "vs.Explore: preemption bounding is only combined with the Plain strategy"
	}
	nodeAtShard := 0
	for {
		if opt.MaxExecs > 0 && e.st.Execs >= opt.MaxExecs {
			e.st.CappedBy = "max-execs"
			return e.st, ""
		}
		if !opt.Deadline.IsZero() && e.st.Execs%64 == 0 && time.Now().After(opt.Deadline) {
			e.st.CappedBy = "deadline"
			return e.st, ""
		}
		skip := false
		chooser := e.choose
		if opt.ShardCount > 1 {
			chooser = func(depth int, en []Trans, lastTid int) int {
				isNew := depth >= len(e.stack)
				r := e.choose(depth, en, lastTid)
				if isNew && depth == opt.ShardDepth && r >= 0 {
					// a new subtree root at the shard depth: owned?
					mine := nodeAtShard%opt.ShardCount == opt.ShardIndex
					nodeAtShard++
					if !mine {
						skip = true
						return -1
					}
				}
				return r
			}
		}
		ex := RunOnce(opt.Cfg, body, chooser)
		e.st.Execs++
		e.st.Steps += int64(ex.Steps)
		if skip && len(e.stack) > opt.ShardDepth {
			e.stack = e.stack[:opt.ShardDepth]
		}
		if e.err != "" {
			return e.st, e.err
		}
		if opt.AfterExec != nil && ex.Term != TermToolError && opt.AfterExec(ex) {
			e.st.CappedBy = "stopped-by-check"
			return e.st, ""
		}
		switch ex.Term {
		case TermToolError:
			return e.st, ex.ToolErr
		case TermBlocked:
			if !skip {
				e.st.Blocked++
			}
		default:
			e.st.Complete++
			if check(ex) {
				e.st.CappedBy = "stopped-by-check"
				return e.st, ""
			}
		}
		if !e.backtrack() {
			e.st.Exhaustive = true
			return e.st, ""
		}
	}
}

// Replay runs one execution following the given decision list exactly; after
// the list is exhausted the first enabled transition is taken. A choice that
// is out of range is a tool error (NONDETERMINISM).
func Replay(cfg Config, body func(), decisions []int) *Exec {
	cfg.KeepTrace = true
	return RunOnce(cfg, body, func(depth int, en []Trans, lastTid int) int {
		if depth < len(decisions) {
			if decisions[depth] >= len(en) {
				return len(en) + 1000 // forces the out-of-range tool error
			}
			return decisions[depth]
		}
		return 0
	})
}
