//go:build !race

package vs

// RaceBuild reports whether the binary was built with -race.
const RaceBuild = false

func raceOff()                   {}
func raceOn()                    {}
func raceAcquire(p *uint64)      {}
func raceRelease(p *uint64)      {}
func raceReleaseMerge(p *uint64) {}

// RaceOff/RaceOn are no-ops outside the race build.
func RaceOff() {}

// RaceOn ends a RaceOff region.
func RaceOn() {}
