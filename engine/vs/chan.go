package vs

import (
	"strconv"
	"time"
)

type bufElem struct {
	v  any
	vc VC
}

type chanCore struct {
	obj     *object
	cap     int
	buf     []bufElem
	closed  bool
	closeVC VC
	nsent   int
	nrecv   int
	recvVC  []VC
	ticker  bool
	oneshot bool
	stopped bool
	slotw   []uint64 // race build: one synchronisation address per buffer slot
	closew  uint64   // race build: synchronisation address of close
}

func (c *chanCore) name() string {
	if c == nil {
		return "nil"
	}
	return c.obj.name
}

// Chan replaces `chan T` in rewritten code. A nil *Chan behaves like a nil
// channel: operations on it never become enabled.
type Chan[T any] struct {
	core chanCore
}

//go:norace
func (c *Chan[T]) c() *chanCore {
	if c == nil {
		return nil
	}
	return &c.core
}

// NewChan replaces make(chan T, n).
//
//go:norace
func NewChan[T any](n int) *Chan[T] {
	if n < 0 {
		panic(shimPanic("makechan: size out of range"))
	}
	s := S
	if s == nil {
		panic("vs.NewChan outside an execution")
	}
	c := &Chan[T]{}
	c.core.cap = n
	if RaceBuild && n > 0 {
		c.core.slotw = make([]uint64, n)
	}
	c.core.obj = s.newObject("chan#" + strconv.Itoa(s.nobj+1) + "(" + strconv.Itoa(n) + ")")
	return c
}

// Name sets a readable name (harness use).
//
//go:norace
func (c *Chan[T]) Name(n string) *Chan[T] {
	c.core.obj.name = n
	return c
}

// Send replaces `c <- v`.
//
//go:norace
func (c *Chan[T]) Send(v T) {
	t := enter()
	r := t.do(&op{arms: []arm{{kind: aSend, ch: c.c(), val: v}}})
	if r.panicMsg != "" {
		plainPanic(r.panicMsg)
	}
}

// Recv replaces `<-c`.
//
//go:norace
func (c *Chan[T]) Recv() T {
	v, _ := c.Recv2()
	return v
}

// Recv2 replaces `v, ok := <-c`.
//
//go:norace
func (c *Chan[T]) Recv2() (T, bool) {
	t := enter()
	r := t.do(&op{arms: []arm{{kind: aRecv, ch: c.c()}}})
	var zero T
	if !r.ok || r.val == nil {
		if r.ok {
			return zero, true
		}
		return zero, false
	}
	return r.val.(T), true
}

// Close replaces close(c).
//
//go:norace
func (c *Chan[T]) Close() {
	t := enter()
	r := t.do(&op{arms: []arm{{kind: aClose, ch: c.c()}}})
	if r.panicMsg != "" {
		plainPanic(r.panicMsg)
	}
}

// Len replaces len(c).
//
//go:norace
func (c *Chan[T]) Len() int {
	if c == nil {
		return 0
	}
	return len(c.core.buf)
}

// Cap replaces cap(c).
//
//go:norace
func (c *Chan[T]) Cap() int {
	if c == nil {
		return 0
	}
	return c.core.cap
}

// ---------------------------------------------------------------- select

// RecvCase is a receive clause of a select and holds its result.
type RecvCase[T any] struct {
	V  T
	OK bool
	ch *chanCore
}

// SendCase is a send clause of a select.
type SendCase struct{ a arm }

// Arm is one communication clause of a select.
type Arm struct {
	a   arm
	set func(r opResult)
}

// SendArm builds `case c <- v`.
//
//go:norace
func SendArm[T any](c *Chan[T], v T) *SendCase {
	return &SendCase{a: arm{kind: aSend, ch: c.c(), val: v}}
}

// Arm converts the clause for Select.
func (s *SendCase) Arm() Arm { return Arm{a: s.a} }

// RecvArm builds `case x, ok := <-c`.
//
//go:norace
func RecvArm[T any](c *Chan[T]) *RecvCase[T] {
	return &RecvCase[T]{ch: c.c()}
}

// Arm converts the clause for Select.
//
//go:norace
func (dst *RecvCase[T]) Arm() Arm {
	return Arm{a: arm{kind: aRecv, ch: dst.ch}, set: func(r opResult) {
		dst.OK = r.ok
		if r.val != nil {
			dst.V = r.val.(T)
		}
	}}
}

// Select replaces a select statement. It returns the index of the arm that
// proceeded, or -1 for default. With no arms and no default it blocks forever.
func Select(hasDefault bool, arms ...Arm) int {
	t := enter()
	o := &op{hasDefault: hasDefault, arms: make([]arm, len(arms))}
	for i := range arms {
		o.arms[i] = arms[i].a
	}
	r := t.do(o)
	if r.panicMsg != "" {
		plainPanic(r.panicMsg)
	}
	if r.arm >= 0 && arms[r.arm].set != nil {
		arms[r.arm].set(r)
	}
	return r.arm
}

// ---------------------------------------------------------------- time

// Ticker replaces *time.Ticker. Whether and when it fires is decided by the
// explorer, within the execution's tick budget.
type Ticker struct {
	C *Chan[time.Time]
}

// NewTicker replaces time.NewTicker.
func NewTicker(d time.Duration) *Ticker {
	if d <= 0 {
		panic("non-positive interval for NewTicker")
	}
	c := NewChan[time.Time](1)
	c.core.ticker = true
	c.core.obj.name = "ticker#" + strconv.Itoa(c.core.obj.id)
	return &Ticker{C: c}
}

// Stop replaces (*time.Ticker).Stop.
func (t *Ticker) Stop() { t.C.core.stopped = true }

// Reset replaces (*time.Ticker).Reset.
func (t *Ticker) Reset(d time.Duration) { t.C.core.stopped = false }

// Timer replaces *time.Timer: a one-shot ticker.
type Timer struct {
	C *Chan[time.Time]
}

// NewTimer replaces time.NewTimer.
func NewTimer(d time.Duration) *Timer {
	c := NewChan[time.Time](1)
	c.core.ticker = true
	c.core.oneshot = true
	c.core.obj.name = "timer#" + strconv.Itoa(c.core.obj.id)
	return &Timer{C: c}
}

// Stop replaces (*time.Timer).Stop.
func (t *Timer) Stop() bool {
	was := !t.C.core.stopped
	t.C.core.stopped = true
	return was
}

// Reset replaces (*time.Timer).Reset.
func (t *Timer) Reset(d time.Duration) bool {
	was := !t.C.core.stopped
	t.C.core.stopped = false
	return was
}

// After replaces time.After.
func After(d time.Duration) *Chan[time.Time] { return NewTimer(d).C }

// Tick replaces time.Tick.
func Tick(d time.Duration) *Chan[time.Time] { return NewTicker(d).C }

// Sleep replaces time.Sleep: a scheduling point.
func Sleep(d time.Duration) { Yield() }
