#!/bin/bash
# seed_matrix.sh [seed-name...] : runs, for every seeded change, the quick check of the property it
# breaks (plus any extra checks given as NAME:ID1,ID2) against a scratch worktree with the change applied.
# Output: one "SEED ..." line per (seed, check) in /tmp/seedmatrix.log
cd /verif
LOG=${SEED_LOG:-/tmp/seedmatrix.log}
if [ $# -eq 0 ]; then set -- $(ls seeded | sort); fi
for spec in "$@"; do
  name=${spec%%:*}; ids=${spec#*:}
  if [ "$ids" = "$spec" ]; then ids=${name%%-*}; fi
  ids=$(echo "$ids" | tr ',' ' ')
  bash tools/try_seed.sh /verif/seeded/$name/patch.diff "$name" $ids 2>&1 | grep '^SEED' >> "$LOG"
done
echo MATRIXDONE >> "$LOG"
