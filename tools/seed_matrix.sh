#!/bin/bash
# seed_matrix.sh [seed-name[:ID1,ID2]...] : runs, for every seeded change, the quick check of the property it
# breaks (or the checks given after the colon) against a scratch worktree of /repo with the change applied.
# Works from any copy of the verification tree (e.g. a `vp run` snapshot): everything is relative to this script.
# Output: one "SEED ..." line per (seed, check) in $SEED_LOG (default /tmp/seedmatrix.log)
export VERIF_DIR="$(cd "$(dirname "$0")/.." && pwd)"
cd "$VERIF_DIR"
LOG=${SEED_LOG:-/tmp/seedmatrix.log}
if [ $# -eq 0 ]; then set -- $(ls seeded | grep -v '\.log$' | sort); fi
for spec in "$@"; do
  name=${spec%%:*}; ids=${spec#*:}
  if [ "$ids" = "$spec" ]; then ids=${name%%-*}; fi
  ids=$(echo "$ids" | tr ',' ' ')
  bash tools/try_seed.sh "$VERIF_DIR/seeded/$name/patch.diff" "$name" $ids 2>&1 | grep '^SEED' >> "$LOG"
done
echo MATRIXDONE >> "$LOG"
