#!/bin/bash
# thorough_trial.sh [ids...]: runs the thorough tier of each check with a short per-scenario deadline and records rc + summary
D="$(cd "$(dirname "$0")/.." && pwd)"; export VERIF_DIR="$D"
LOG="${TRIAL_LOG:-/tmp/thorough-trial.log}"
DL="${TRIAL_DEADLINE:-30}"
ids=("$@"); [ ${#ids[@]} -eq 0 ] && ids=(C01 C02 C03 C04 C05 C06 C07 C08 C09 C10 C11 C12 C13 C14 C15 C16 C17 C18 C19 C20)
for spec in "${ids[@]}"; do
  # an id may carry a family filter: C11:PF:fork  ->  check C11 ... -only PF:fork
  id="${spec%%:*}"; only=(); [ "$spec" != "$id" ] && only=(-only "${spec#*:}")
  t0=$(date +%s)
  out=$(VERIF_BUILD_TAG=trial VERIF_EVIDENCE_DIR=/tmp/tt-ev VERIF_REPLAY_DIR=/tmp/tt-ev/replays "$D/check" "$id" --tier thorough -scenario-deadline "$DL" "${only[@]}" 2>&1); rc=$?
  t1=$(date +%s)
  echo "TRIAL $spec rc=$rc $((t1-t0))s :: $(echo "$out" | grep -E "VIOLATION|TOOL-ERROR|KNOWN-FINDING|thorough:" | head -6 | cut -c1-300 | tr '\n' ' ')" >> "$LOG"
done
rm -rf /tmp/tt-ev
echo done >> "$LOG"
