#!/bin/bash
# try_seed.sh <patch.diff> <tag> <check-id>... : runs the given checks (quick tier) against a scratch
# worktree of /repo with the patch applied; evidence/replays of these runs go to a scratch directory.
set -u
PATCH="$1"; TAG="$2"; shift 2
WT="/tmp/ts-$TAG"
git -C /repo worktree add -q --detach "$WT" HEAD || exit 2
VERIF_DIR="${VERIF_DIR:-/verif}"
trap 'git -C /repo worktree remove --force "$WT" >/dev/null 2>&1; rm -rf "$WT" "$VERIF_DIR/build/"*"-$TAG"' EXIT
git -C "$WT" apply "$PATCH" 2>/dev/null || git -C "$WT" apply --3way "$PATCH" || { echo "patch does not apply"; exit 2; }
export VERIF_REPO="$WT" VERIF_BUILD_TAG="$TAG" VERIF_EVIDENCE_DIR="/tmp/ts-ev-$TAG" VERIF_REPLAY_DIR="/tmp/ts-ev-$TAG/replays"
for id in "$@"; do
  start=$(date +%s)
  out=$("$VERIF_DIR/check" "$id" --tier quick 2>&1); rc=$?; echo "$out" > /tmp/ts-last-$TAG-$id.log
  v=$(echo "$out" | grep -c '^VIOLATION')
  first=$(echo "$out" | grep -A2 '^VIOLATION' | head -3 | tr '\n' ' ' | cut -c1-400)
  te=$(echo "$out" | grep '^TOOL-ERROR' | head -2 | tr '\n' ' ' | cut -c1-300)
  echo "SEED $TAG check=$id rc=$rc violations=$v $(( $(date +%s) - start ))s :: $first $te"
done
rm -rf "/tmp/ts-ev-$TAG"
