#!/usr/bin/env python3
"""Regenerates /verif/MANIFEST.json from the table below (keeps the manifest valid and uniform)."""
import json, os, sys

V = os.path.dirname(os.path.dirname(os.path.abspath(__file__)))

TB_SCHED = ("Trusted base: the vs shim's model of Go channels/select/context/ticker (bound to Go by the litmus suite run in setup "
            "and before scheduler-level checks), the source rewriter, sequentially consistent interleavings; bounds as stated in evidence (jobs, N, ticks).")
TB_GEN = ("Trusted base: as for the scheduler level, plus the program renderer and the reference interpreter of the directive semantics "
          "(written from cff's documentation), the probe library standing in for user functions; program families and scenario bounds as listed in evidence.")
TB_STATIC = ("Trusted base: the program renderer, the reference well-formedness rules (from cff's documentation), go/types, go/build/constraint and the Go compiler as judges; "
             "the bound is the enumerated family (sizes in evidence).")

T_SCHED = "stateless model checking of the implementation: exhaustive sleep-set DFS over all interleavings under a controlled scheduler"
T_GEN = ("bounded-exhaustive program enumeration + stateless model checking: every program of the family is compiled by the cff tool from the working tree and its generated code is "
         "explored over all interleavings (sleep-set DFS under a controlled scheduler) against a reference interpreter")
T_STATIC = "bounded-exhaustive enumeration of generator inputs (explicit-state search over the input space) against a reference model, executed on the real cff binary"

# id -> (engine, text, note, technique, design section)
CHECKS = {}

def add(pid, engine, text, note, tech):
    CHECKS[pid] = dict(engine=engine, text=text, note=note, tech=tech)

add("C01", "vsched", "Two levels. Scheduler: all interleavings (sleep-set DFS, unbounded) of caller, scheduler loop and workers of the real scheduler.go (rewritten onto a controlled-scheduler shim) for every DAG with <=3 jobs (quick; <=4 jobs and N=3 thorough), duplicate dependency lists, every ok/error vector, N in {1,2}, both error modes. Generated code: flows in every permutation of the task listing (with and without predicates), multi-result providers (a dependency listed twice), Parallel End hooks. Oracle on vector clocks at both levels: the start of a job / user function happens-after the end of every dependency / provider / its own predicate, the dependency succeeded, nothing starts twice.", TB_SCHED, T_SCHED)
add("C02", "genmc", "Every well-formed flow structure with <=2 tasks over <=2 types (thorough: 3 tasks/3 types), all listing orders of named shapes, type spellings, task expression forms, enclosing contexts, predicates: compiled by the cff binary of the working tree, run on the rewritten scheduler over all interleavings for N in {1,2} (and the default limit); each execution compared with the reference dataflow (each task once, exact argument values, Results), the set of outcomes over all schedules must be a singleton; two concurrent instances of the same flow; mutually assignable value types (named interfaces with one method set) and parameter lists that repeat a type, so that an argument bound to the wrong provider still compiles and only the values tell; several cff.Results / cff.Params options per directive.", TB_GEN, T_GEN)
add("C03", "vsched", "Two levels. Scheduler: largest set of pairwise HB-concurrent job bodies <= limit in every execution; N barrier jobs that can only finish if N bodies run at once never deadlock, also after Goexit jobs (incl. a job that cancels its own context before exiting); thread census must not grow with the number of jobs; default limit max(GOMAXPROCS,4). Generated code: over-limit barriers (limit+1 user functions that only return if all run at once - flow tasks, Parallel tasks, slice elements; default limit 4 and Concurrency(2)) must never open; capacity barriers (two independent functions next to Slice/Map End hooks and predicates must meet); predicates counted as user functions; HB-overlap monitor and a goroutine bound per directive (scheduler loop + starter + limit workers + one replacement per Goexit) in every generated-code execution of every check; programs with a user emitter and ticks. Boundary probes (not exhaustive, listed separately in the evidence): limits 5..129 and one more than every integer literal of the scheduler sources, N functions that must run at once, first K schedules of the zero-preemption search.", TB_SCHED, T_SCHED)
add("C04", "genmc", "Flow shapes, predicate/fallback flows and all Parallel programs with <=2 items x every subset of <=2 panicking user functions (task, predicate, slice/map function, End hook) x panic value kinds {string,error,runtime error,struct} x fail-fast/ContinueOnError x N in {1,2}, all interleavings: no thread dies, errors.As yields *cff.PanicError with the injected value, fallbacks absorb, independent branches and a second concurrent directive unaffected.", TB_GEN, T_GEN)
add("C05", "vsched", "Two levels. Scheduler: outcomes {ok,error,Goexit,cancel,gate}, canceller thread, second enqueuing caller, emitter ticks, an emitter that kills the loop goroutine, own-context Goexit, default-limit scenarios, enqueue pressure. Generated code: flow shapes, predicate/fallback flows, Parallel programs, default-limit programs x {ok, failing subsets, panic, Goexit, cancel inside / before / from another thread, a function still running while another fails, two concurrent instances}. Oracle: no terminal state with the caller blocked, no escaped panic, no step-horizon overrun.", TB_SCHED, T_SCHED)
add("C06", "vsched", "Same executions as C05 at both levels, judged at the terminal state after gated functions were released: every thread the scheduler created has exited; two consecutive runs in one execution; default concurrency with a failure while other jobs are in flight.", TB_SCHED, T_SCHED)
add("C07", "vsched+genmc", "Scheduler level: fail-fast scenarios incl. Goexit and cancellation: nil => every job ran once ok; non-nil => errors.Is one of the jobs that failed in this very execution or the context error; nothing downstream of a failure ever starts. Generated-code level: flow shapes and Parallel programs x every non-empty failing subset, all interleavings: same oracle plus Results targets untouched on failure.", TB_GEN, T_GEN)
add("C08", "vsched+genmc", "Scheduler level: ContinueOnError scenarios: every job with only successful ancestors runs exactly once, descendants of failures never, multierr.Errors(err) equals exactly the failed jobs' error values, sentinel never leaks. Generated-code level: Parallel programs with ContinueOnError(true / variable true / variable false / false) x failing subsets and panics, all interleavings.", TB_GEN, T_GEN)
add("C09", "vsched+genmc", "Cancellation before the call, inside a job, and from a separate thread at every instant: no job body start is happens-after the cancel; Wait/the directive returns non-nil when cancel happens-before its return; with a gated (still running) job the caller is never stuck; generated-code level: every ctx-taking function receives the directive's context (marker value).", TB_GEN, T_GEN)
add("C10", "genmc", "All Parallel programs with <=3 items from {Task, Tasks(2), Slice, Map} x signature variants x End hooks x collection contents (nil, empty, 1..3 elements) x N in {1,2,default}, map iteration order chosen by the explorer, all interleavings: each function/element/entry invoked exactly once with (i,s[i]) / (k,m[k]); End hook once, happens-after every element call of its collection, never after a failed or panicked element.", TB_GEN, T_GEN)
add("C11", "genmc", "Flow shapes x every placement of predicates (no input / shared input / own input / upstream) and FallbackWith on <=2 tasks x predicate outcomes {true,false,panic} x task outcomes {ok,error,panic}, all interleavings: reference semantics for invocation, argument values, zero values, fallback substitution; predicates at most once.", TB_GEN, T_GEN)
add("C12", "genmc-race", "The Go race detector runs under the controlled scheduler on every explored schedule. Scheduler level: the C12 scenario family (two/three-job graphs, failures, cancellation with gated jobs, two threads enqueuing concurrently) in a race build of the scheduler harness. Generated-code level: flow shapes incl. a dependency listed twice, instrumented flows, predicate/fallback flows, Parallel programs x outcomes {ok, error, panic} x early return by failure and by cancellation with another function still running (gated, released without a happens-before edge from the caller) x an identifier argument reassigned by the caller after an early return x two concurrent directives sharing an emitter stack. Only the repository's code and the generated code are instrumented; the native hand-offs are hidden (runtime.RaceDisable) and each thread emits exactly the acquire/release operations Go's runtime performs for the channel/close/context operation it executed; the annotations are bound to the Go memory model by an 18-program race litmus suite run first. A report is confirmed by replaying its schedule in fresh processes.", TB_GEN + " For C12 additionally: the ThreadSanitizer runtime (bounded shadow/trace state: a racing pair is not reported on every run of the same schedule, so a clean run is evidence for the explored schedules only, never a proof); teardown of abandoned executions is serialised in view of the detector.", "stateless model checking of the implementation with the Go race detector as per-execution oracle: exhaustive sleep-set DFS over all interleavings under a controlled scheduler, happens-before of the modelled primitives re-created by race annotations")
add("C13", "genmc-static", "Every well-formed graph-family program, every spelling/context feature program (imports, aliases, shadowing identifiers, enclosing contexts, hand-written corner cases), the programs of the run-time families and the accepted assignability pairs, in 4 tool configurations (base/source-map x auto-instrument), plus modifier mode for the programs it supports (the MOD family of C20, incl. types that reach a flow only through another package's function signatures): cff exit status, diagnostics, parse + compile of every output file without the cff tag, AST scan for leftover directive calls, no Go panic of the tool.", TB_STATIC, T_STATIC)
add("C14", "genmc-static", "All flow structures with <=2 tasks over <=2 types (thorough 3) incl. every ill-formed one, all 3-task unary flows (cycles at every distance), predicates, all listing orders of named shapes, and the full 13x13 Slice/Map element-vs-parameter assignability lattice (go/types as judge): cff accepts iff the reference rules do; rejected => non-zero exit, diagnostic naming the file, no output for it.", TB_STATIC, T_STATIC)
add("C15", "genmc", "Programs whose every directive argument is wrapped in a logging identity function (flows, all listing orders of a shape, predicates/fallbacks, emitters with and without anything instrumented, instrument names, Parallel incl. Slice/Map collections and End hooks, non-constant Concurrency/ContinueOnError) and programs whose enclosing function declares identifiers named like generated ones, all interleavings: arguments evaluated exactly once, in source order, on the calling thread, happens-before every user function start; output compiles and binds to the user's variables.", TB_GEN, T_GEN)
add("C16", "genmc-x", "(a) every build-constraint header inside the bound (all //go:build expressions of depth<=2 over {cff,a,b}; all // +build lines with <=2 groups of <=2 terms; 2- and 3-line forms; both syntaxes; comment-split headers) goes through the real writeInvertedCffTag (driver injected into the cff module by overlay) and go/build.MatchFile decides, for all 8 tag assignments, that the output is selected exactly when the source is selected with cff flipped; headers that select the file under the cff tag also go end to end through the cff binary; (b) source vs output of every accepted program of the spelling/context families with directive spans masked: all other declarations token-identical, imports only added; (c) every non-empty subset of a package's files x default/explicit output x {base,source-map} processed in a fresh copy of the tree hashed before/after, TMPDIR watched: only documented output paths appear; explicit output paths in 10 spellings (comma, space, '=', non-ASCII, hidden, leading dash, nested, absolute), whole module (./...) with equal file names in two packages.", TB_STATIC, T_STATIC)
add("C17", "genmc-x", "(a) the cff tool is rebuilt from the working tree with every range-over-map of the generator and of x/tools' typeutil.Map under control of a parent process, which enumerates every iteration order at every map iteration the tool performs on each program (all n! for n<=4 keys; reversal/rotations/transpositions above; one deviation at a time, thorough: pairs) and requires byte-identical output in base and source-map modes; (b) all -file subsets x explicit/default outputs x whole package yield identical bytes per source file, every file of a large package alone equals the whole-package result; a package alone vs the whole module (an output produced by one invocation must be produced by every invocation covering the file); every invocation repeated in a copy of the tree at another path; (c) two fresh processes per package and mode agree and the random line-reset token never survives.", TB_STATIC, "explicit-state enumeration of the generator's nondeterminism (map iteration orders as environment answers, deviation-bounded) and of invocation histories (file subsets), on the real cff tool rebuilt with controlled map iteration")
add("C18", "genmc", "Instrumented flows (every subset of tasks instrumented x InstrumentFlow x emitters {1,2,nested stack}) and Parallels x outcomes {ok,error,panic,predicate false, context done before the call, context cancelled by a task} over all interleavings with recording emitters: exactly one Success/Error (Error carrying the returned error) then one Done last; one matching outcome event + one TaskDone per invocation; TaskSkipped once for uninvoked tasks on nil; every emitter of a stack sees the same sequence.", TB_GEN, T_GEN)
add("C19", "vsched+genmc", "Scheduler level: scenarios with a recording emitter and a tick budget of 1..3: every emitted State satisfies the stated arithmetic, Pending/Waiting bounded by the jobs whose Enqueue began happens-before the report, no report after a normal Wait return. Generated-code level: flows and a Parallel with a user emitter (explicit and default Concurrency, predicates, a failing task), tick budget 1..2, all interleavings: the SchedulerState values the user's emitter receives through the root package's adapter satisfy the same arithmetic against the limit the directive configured and the number of jobs of the flow.", TB_GEN, T_GEN)
add("C20", "genmc-static", "(a) every accepted program of the C13 families (incl. hand-written inputs such as a 70 kB line): comment-free token streams of base and source-map output are identical and both modes agree on acceptance. (b) the MOD family (flows from Params, Results, Concurrency and plain Tasks: named shapes, task listing orders, type spellings, task forms, import situations, differently spelled identical types) is generated in base and in modifier mode, both are compiled and explored over all interleavings for every single failing and single panicking task; every modifier-mode execution is judged by the reference oracles and the set of observable outcomes per scenario must equal the base-mode set.", TB_STATIC, T_STATIC)

NOT_YET = {
}

def main():
    extra = json.load(open(os.path.join(V, "tools", "manifest_extra.json"))) if os.path.exists(os.path.join(V, "tools", "manifest_extra.json")) else {}
    for pid, e in extra.get("checks", {}).items():
        add(pid, e["engine"], e["text"], {"sched": TB_SCHED, "gen": TB_GEN, "static": TB_STATIC}.get(e.get("note", ""), e.get("note", "")),
            {"sched": T_SCHED, "gen": T_GEN, "static": T_STATIC}.get(e.get("tech", ""), e.get("tech", "")))
    props = [json.loads(l)["id"] for l in open(os.path.join(V, "properties.jsonl")) if l.strip()]
    checks = []
    for pid in props:
        if pid not in CHECKS:
            continue
        c = CHECKS[pid]
        checks.append({
            "property_id": pid,
            "quick_cmd": f"./check {pid} --tier quick",
            "thorough_cmd": f"./check {pid} --tier thorough",
            "evidence_file": f"/verif/evidence/{pid}.json",
            "replay_cmd_template": f"./check {pid} --replay {{path}}",
            "engine": c["engine"],
            "level_claimed": {"category": "model_checking", "text": c["text"], "design_ref": f"DESIGN.md section 6 {pid}"},
            "level_note": c["note"],
            "technique": c["tech"],
        })
    na = []
    for pid in props:
        if pid not in CHECKS:
            na.append({"property_id": pid, "reason": extra.get("not_applicable", {}).get(pid, NOT_YET.get(pid, "check not built yet (work in progress)"))})
    m = {
        "version": 1,
        "setup_cmd": "./setup.sh",
        "hooks": {
            "guard": "verif",
            "enable": "no source hooks: ./check rewrites scheduler/*.go (and, where needed, generator sources) from the working tree onto the vs shim and injects the result with go build -overlay; nothing is committed to /repo for instrumentation",
            "baseline_off_cmd": "cd /repo && go test -mod=mod -vet=off -count=1 ./... && cd internal/tests && go test -mod=mod -vet=off -count=1 ./...",
            "source_commits": [],
            "add_only": True,
        },
        "engines": [
            {"name": "vsched", "path": "/verif/engine/vs", "serves_properties": [p for p in props if p in CHECKS],
             "kind_free_text": "controlled cooperative scheduler + stateless sleep-set DFS explorer over the real scheduler.go, rewritten at check time by /verif/engine/rewrite"},
            {"name": "genmc", "path": "/verif/harness/cmd/genmc", "serves_properties": [p for p in props if p in CHECKS and "gen" in CHECKS[p]["engine"]],
             "kind_free_text": "bounded-exhaustive enumeration of abstract cff programs, rendered to Go, compiled by the cff binary built from the working tree, executed on vsched against a reference interpreter; static oracles on the tool's output"},
        ],
        "checks": checks,
        "not_applicable": na,
        "notes": extra.get("notes", "fix: commits in /repo are listed in known_findings.json (status=fixed) and DESIGN.md section 7."),
    }
    json.dump(m, open(os.path.join(V, "MANIFEST.json"), "w"), indent=1)
    print(f"{len(checks)} checks, {len(na)} not_applicable")

main()
