#!/bin/bash
# harvest_seeds.sh <worktree-prefix> <Cxx> <wave> <first-number>
#   copies <prefix>-Cxx/_seed/{1,2} to seeded/Cxx-<n>, <n+1>, removes the sub-agent's scratch worktree,
#   confirms each change in a fresh scratch worktree (tools/confirm_seed.sh) and records the result in meta.json
prefix="$1"; id="$2"; wave="$3"; first="$4"
V="$(cd "$(dirname "$0")/.." && pwd)"
for n in 1 2; do
  src="$prefix-$id/_seed/$n"; dst="$V/seeded/$id-$((first+n-1))"
  [ -f "$src/patch.diff" ] || { echo "$id/$n: no patch"; continue; }
  rm -rf "${dst:?}"; mkdir -p "$dst"; cp -r "$src"/. "$dst"/
done
git -C /repo worktree remove --force "$prefix-$id"; rm -rf "${prefix:?}-$id"; git -C /repo worktree prune
for n in "$first" "$((first+1))"; do
  dst="$V/seeded/$id-$n"; [ -d "$dst" ] || continue
  res=$(bash "$V/tools/confirm_seed.sh" "$dst" 2>&1 | grep -E "CONFIRMED" | tail -1)
  echo "$id-$n: $res"
  python3 - "$dst" "$res" "$wave" "$(git -C /repo rev-parse --short HEAD)" <<'PY'
import json,sys
d,res,wave,head=sys.argv[1:5]
p=d+'/meta.json'
try: m=json.load(open(p))
except Exception: m={}
m['wave']=int(wave)
if res.startswith('CONFIRMED'):
    m['confirmed']={"by":"tools/confirm_seed.sh in a scratch worktree of /repo HEAD (%s)"%head,"demo_on_unchanged_tree":"pass","suite_with_change":"pass (go test ./... in root and internal/tests; known baseline failure TestPanicRecovered ignored)","demo_with_change":"fail"}
else:
    m['confirmed']={"result":res}
json.dump(m,open(p,'w'),indent=1)
PY
done
