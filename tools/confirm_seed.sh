#!/bin/bash
# confirm_seed.sh <seed-src-dir> : confirms a seeded change in a scratch worktree:
#   unchanged tree + demo  -> demo passes
#   changed tree           -> builds, existing suite passes (known failure ignored), demo fails
# Prints a summary line: CONFIRMED / NOT-CONFIRMED <reason>
set -u
SRC="$1"; NAME="$(echo "$SRC" | tr '/' '_' | sed 's/^_*//')"
export GOFLAGS=-mod=mod GOPROXY=off GOSUMDB=off GOTOOLCHAIN=local
WT="/tmp/cs-$$-$NAME"
git -C /repo worktree add -q --detach "$WT" HEAD || exit 2
cleanup() { git -C /repo worktree remove --force "$WT" >/dev/null 2>&1; rm -rf "$WT"; }
trap cleanup EXIT
run_demo() { # prints PASS/FAIL
  local rc=0
  if [ -f "$SRC/demo/run.sh" ]; then (bash "$SRC/demo/run.sh" "$WT") >"$WT/.demo.log" 2>&1 || rc=1
  elif [ -f "$SRC/run_demo.sh" ]; then (bash "$SRC/run_demo.sh" "$WT") >"$WT/.demo.log" 2>&1 || rc=1
  else
    : > "$WT/.demo.log"
    if [ -d "$SRC/demo/scheduler" ]; then
      cp "$SRC"/demo/scheduler/*_test.go "$WT/scheduler/"
      pat=$(grep -ho 'func Test[A-Za-z0-9_]*' "$SRC"/demo/scheduler/*_test.go | sed 's/func //' | paste -sd'|')
      (cd "$WT" && go test -vet=off -count=1 -run "^($pat)\$" ./scheduler/) >>"$WT/.demo.log" 2>&1 || rc=1
    fi
    if [ -d "$SRC/demo/internal/tests" ]; then
      for d in "$SRC"/demo/internal/tests/*/; do
        pkg=$(basename "$d"); mkdir -p "$WT/internal/tests/$pkg"; cp "$d"/* "$WT/internal/tests/$pkg/"
        pat=$(grep -ho 'func Test[A-Za-z0-9_]*' "$d"/*_test.go | sed 's/func //' | paste -sd'|')
        (cd "$WT/internal/tests" && go test -vet=off -count=1 -run "^($pat)\$" "./$pkg/") >>"$WT/.demo.log" 2>&1 || rc=1
      done
    fi
  fi
  [ $rc = 0 ] && echo PASS || echo FAIL
}
clean_demo() { git -C "$WT" checkout -q -- . ; git -C "$WT" clean -fdq; }
r0=$(run_demo); clean_demo
git -C "$WT" apply "$SRC/patch.diff" || { echo "NOT-CONFIRMED $SRC patch does not apply"; exit 1; }
(cd "$WT" && go build ./... && cd internal/tests && go build ./...) >"$WT/.build.log" 2>&1 || { echo "NOT-CONFIRMED $SRC does not build"; tail -5 "$WT/.build.log"; exit 1; }
suite=PASS
(cd "$WT" && go test -vet=off -count=1 ./... ) >"$WT/.suite1.log" 2>&1 || suite=FAIL
(cd "$WT/internal/tests" && go test -vet=off -count=1 ./... ) >"$WT/.suite2.log" 2>&1
if grep -E '^(--- FAIL|FAIL)' "$WT/.suite2.log" | grep -v 'TestPanicRecovered' | grep -v '^FAIL$' | grep -v 'internal/tests/predicate' | grep -q .; then suite=FAIL; fi
r1=$(run_demo)
if [ "$r0" = PASS ] && [ "$r1" = FAIL ] && [ "$suite" = PASS ]; then echo "CONFIRMED $SRC (demo passes unchanged, fails with change; suite passes with change)"
else echo "NOT-CONFIRMED $SRC demo-unchanged=$r0 demo-changed=$r1 suite-changed=$suite"; tail -15 "$WT/.demo.log"; grep -E '^(--- FAIL|FAIL)' "$WT/.suite1.log" "$WT/.suite2.log" | head; fi
