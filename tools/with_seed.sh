#!/bin/bash
# with_seed.sh <seed-name> <check-id> [extra check args...] : runs one check against a scratch worktree with the seed applied
name="$1"; id="$2"; shift 2
WT="/tmp/ws-$name-$$"
git -C /repo worktree add -q --detach "$WT" HEAD || exit 2
trap 'git -C /repo worktree remove --force "$WT" >/dev/null 2>&1; rm -rf "$WT" "/verif/build/$id-ws$name" "/tmp/ws-ev-$name-$$"' EXIT
git -C "$WT" apply "/verif/seeded/$name/patch.diff" 2>/dev/null || git -C "$WT" apply --3way "/verif/seeded/$name/patch.diff" || { echo "patch does not apply"; exit 2; }
export VERIF_REPO="$WT" VERIF_BUILD_TAG="ws$name" VERIF_EVIDENCE_DIR="/tmp/ws-ev-$name-$$" VERIF_REPLAY_DIR="/tmp/ws-ev-$name-$$/replays"
/verif/check "$id" --tier "${TIER:-quick}" "$@"
echo "rc=$?"
